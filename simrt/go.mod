module simrt

go 1.21
