module simrt

go 1.26
