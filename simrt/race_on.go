//go:build race

package simrt

import (
	"runtime"
	"unsafe"
)

// RaceBuild reports whether the binary was built with the race detector.
const RaceBuild = true

//go:norace
func raceDisable() { runtime.RaceDisable() }

//go:norace
func raceEnable() { runtime.RaceEnable() }

//go:norace
func raceReleaseMerge(p unsafe.Pointer) { runtime.RaceReleaseMerge(p) }

//go:norace
func raceAcquire(p unsafe.Pointer) { runtime.RaceAcquire(p) }

// RaceErrors is the number of race reports printed by this process so far.
func RaceErrors() int { return runtime.RaceErrors() }
