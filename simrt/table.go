package simrt

import (
	"sync/atomic"
	"unsafe"
)

// goid -> *Task, open addressing over atomics. Only ever touched while race
// synchronisation is disabled (see self), so it creates no happens-before
// edges between program goroutines. Each goroutine inserts, looks up and
// deletes only its own id.

const tabSize = 1 << 13
const tombstone = ^uint64(0)

type tabSlot struct {
	id   uint64
	task unsafe.Pointer
}

var tab [tabSize]tabSlot

//go:norace
func tabHash(id uint64) uint64 {
	return (id * 0x9e3779b97f4a7c15) >> (64 - 13)
}

//go:norace
func tabReset() {
	for i := range tab {
		atomic.StoreUint64(&tab[i].id, 0)
		atomic.StorePointer(&tab[i].task, nil)
	}
}

//go:norace
func tabInsert(id uint64, t *Task) {
	h := tabHash(id)
	for i := uint64(0); i < tabSize; i++ {
		sl := &tab[(h+i)%tabSize]
		v := atomic.LoadUint64(&sl.id)
		if v == 0 || v == tombstone {
			if atomic.CompareAndSwapUint64(&sl.id, v, id) {
				atomic.StorePointer(&sl.task, unsafe.Pointer(t))
				return
			}
			// lost the slot to a concurrent insert: look at it again
			i--
		}
	}
	panic("simrt: goroutine table full")
}

//go:norace
func tabLookup(id uint64) *Task {
	h := tabHash(id)
	for i := uint64(0); i < tabSize; i++ {
		sl := &tab[(h+i)%tabSize]
		v := atomic.LoadUint64(&sl.id)
		if v == id {
			return (*Task)(atomic.LoadPointer(&sl.task))
		}
		if v == 0 {
			return nil
		}
	}
	return nil
}

//go:norace
func tabDelete(id uint64) {
	h := tabHash(id)
	for i := uint64(0); i < tabSize; i++ {
		sl := &tab[(h+i)%tabSize]
		v := atomic.LoadUint64(&sl.id)
		if v == id {
			atomic.StorePointer(&sl.task, nil)
			atomic.StoreUint64(&sl.id, tombstone)
			return
		}
		if v == 0 {
			return
		}
	}
}
