//go:build !amd64

package simrt

//go:norace
func goid() uint64 { return goidSlow() }
