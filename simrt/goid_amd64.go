package simrt

import (
	"runtime"
	"sync"
	"unsafe"
)

// Fast goroutine id. runtime.Stack, which the portable goid uses, counts the
// frames it elides, so its cost grows with the depth of the stack: a runaway
// recursion through instrumented code (one goid lookup per level) became
// quadratic and took half an hour to reach the stack limit. Here the id is
// read from the g structure directly; the offset of the field is not assumed
// but found at start-up by comparing with the portable id on two goroutines,
// and the portable way is used if that calibration fails.

func getg() unsafe.Pointer

var goidOffset uintptr // 0 = not calibrated

//go:nocheckptr
//go:norace
func goidCandidates() map[uintptr]bool {
	want := goidSlow()
	g := uintptr(getg())
	found := map[uintptr]bool{}
	if g == 0 {
		return found
	}
	for off := uintptr(0); off < 512; off += 8 {
		if *(*uint64)(unsafe.Pointer(g + off)) == want {
			found[off] = true
		}
	}
	return found
}

func init() {
	a := goidCandidates()
	var b map[uintptr]bool
	var wg sync.WaitGroup
	wg.Add(1)
	go func() {
		defer wg.Done()
		runtime.LockOSThread()
		b = goidCandidates()
	}()
	wg.Wait()
	var offs []uintptr
	for off := range a {
		if b[off] {
			offs = append(offs, off)
		}
	}
	if len(offs) == 1 {
		goidOffset = offs[0]
	}
}

//go:nocheckptr
//go:norace
func goid() uint64 {
	if goidOffset == 0 {
		return goidSlow()
	}
	return *(*uint64)(unsafe.Pointer(uintptr(getg()) + goidOffset))
}
