//go:debug asynctimerchan=0
package simrt

import (
	"fmt"
	"os"
	"sync"
	"testing"
	"time"
)

// toy pipeline: producer -> N workers -> collector, workers share a lazily
// filled cache (racy when guarded == false).
type lazy struct {
	mu      sync.Mutex
	filled  bool
	value   int
	guarded bool
}

func (l *lazy) get() int {
	if l.guarded {
		Lock("lazy.lock", &l.mu)
		defer Unlock("lazy.unlock", &l.mu)
	}
	if !l.filled {
		l.value = 42
		l.filled = true
	}
	return l.value
}

func pipeline(workers int, items int, l *lazy, out *[]int) func() {
	return func() {
		jobs := make(chan int, 2)
		results := make(chan int, 2)
		Go("producer", func() {
			for i := 0; i < items; i++ {
				Yield("send")
				jobs <- i
				Yield("send+")
			}
			close(jobs)
		})
		var wg sync.WaitGroup
		for w := 0; w < workers; w++ {
			wg.Add(1)
			Go("worker", func() {
				for j := range jobs {
					Yield("recv")
					v := l.get()
					Yield("rsend")
					results <- j*1000 + v
					Yield("rsend+")
				}
				wg.Done()
			})
		}
		Go("closer", func() {
			WaitGroupWait("wait", &wg)
			close(results)
		})
		for r := range results {
			Yield("collect")
			*out = append(*out, r)
		}
		Sleep("sleep", time.Millisecond)
	}
}

func TestDeterminism(t *testing.T) {
	for seed := uint64(1); seed <= 20; seed++ {
		var first Result
		for rep := 0; rep < 5; rep++ {
			var out []int
			l := &lazy{guarded: true}
			res := Run(t, Config{Seed: seed, Mode: "random", PreemptProb: 0.3, Trace: true}, pipeline(3, 10, l, &out))
			if res.Outcome != "completed" {
				t.Fatalf("seed %d: outcome %s %+v", seed, res.Outcome, res)
			}
			if len(out) != 10 {
				t.Fatalf("seed %d: %d results", seed, len(out))
			}
			if rep == 0 {
				first = res
			} else if res.Hash != first.Hash || fmt.Sprint(res.Trace) != fmt.Sprint(first.Trace) {
				t.Fatalf("seed %d rep %d: nondeterministic", seed, rep)
			}
		}
		// explicit replay of the recorded schedule gives the same run
		var out []int
		l := &lazy{guarded: true}
		rec := first.Recorded
		res := Run(t, Config{Seed: 999, Mode: "explicit", Explicit: &rec}, pipeline(3, 10, l, &out))
		if res.Hash != first.Hash {
			t.Fatalf("seed %d: explicit replay differs (infeasible=%d)", seed, res.Infeasible)
		}
	}
}

func TestDistinctSchedules(t *testing.T) {
	seen := map[uint64]bool{}
	for seed := uint64(1); seed <= 50; seed++ {
		var out []int
		res := Run(t, Config{Seed: seed, Mode: "pct", PCTDepth: 2, PCTHorizon: 60}, pipeline(3, 10, &lazy{guarded: true}, &out))
		if res.Outcome != "completed" || len(out) != 10 {
			t.Fatalf("seed %d: %+v", seed, res)
		}
		seen[res.ContendedHash] = true
	}
	if len(seen) < 25 {
		t.Fatalf("only %d distinct schedules", len(seen))
	}
}

func TestRaceVisible(t *testing.T) {
	if !RaceBuild {
		t.Skip("needs -race")
	}
	before := RaceErrors()
	for seed := uint64(1); seed <= 30; seed++ {
		var out []int
		Run(t, Config{Seed: seed, Mode: "random", PreemptProb: 0.3}, pipeline(3, 10, &lazy{guarded: true}, &out))
	}
	if RaceErrors() != before {
		t.Fatalf("false race report on guarded cache")
	}
}

func TestCrashAndHang(t *testing.T) {
	res := Run(t, Config{Seed: 1, Mode: "random", PreemptProb: 0.5}, func() {
		done := make(chan int)
		Go("w", func() {
			var m map[string]int
			m["x"] = 1
			done <- 1
		})
		Yield("r")
		<-done
	})
	if res.Outcome != "crash" || res.Crash == nil {
		t.Fatalf("want crash, got %+v", res)
	}
	res = Run(t, Config{Seed: 1, Mode: "default"}, func() {
		ch := make(chan int)
		Yield("r")
		<-ch
	})
	if res.Outcome != "hang" {
		t.Fatalf("want hang, got %+v", res)
	}
	// leaked goroutine but root returns
	res = Run(t, Config{Seed: 1, Mode: "default"}, func() {
		ch := make(chan int)
		Go("leak", func() {
			Yield("s")
			ch <- 1
		})
	})
	if res.Outcome != "completed" || len(res.Leaked) != 1 {
		t.Fatalf("want completed with one leak, got %+v", res)
	}
	// mutex held across a blocking send
	res = Run(t, Config{Seed: 3, Mode: "random", PreemptProb: 0.5}, func() {
		var mu sync.Mutex
		ch := make(chan int, 1)
		var wg sync.WaitGroup
		for i := 0; i < 3; i++ {
			wg.Add(1)
			Go("w", func() {
				Lock("l", &mu)
				Yield("s")
				ch <- 1
				Yield("s+")
				Unlock("u", &mu)
				wg.Done()
			})
		}
		for i := 0; i < 3; i++ {
			Yield("r")
			<-ch
			Yield("r+")
		}
		WaitGroupWait("wg", &wg)
	})
	if res.Outcome != "completed" {
		t.Fatalf("mutex: %+v", res)
	}
}

func TestRacyCacheReported(t *testing.T) {
	if !RaceBuild || os.Getenv("SIMRT_EXPECT_RACE") == "" {
		t.Skip("needs -race and SIMRT_EXPECT_RACE=1 (the test binary fails by design when the race is reported)")
	}
	before := RaceErrors()
	var out []int
	// fully serialised execution: the race must still show on some schedule
	n := 0
	for seed := uint64(1); seed <= 20 && RaceErrors() == before; seed++ {
		Run(t, Config{Seed: seed, Mode: "random", PreemptProb: 0.3}, pipeline(3, 10, &lazy{guarded: false}, &out))
		n++
	}
	t.Logf("seeds tried: %d", n)
	if RaceErrors() == before {
		t.Fatalf("racy cache not reported")
	}
	t.Logf("races reported: %d", RaceErrors()-before)
}

func TestFastGoid(t *testing.T) {
	if goidOffset == 0 {
		t.Fatalf("goid offset calibration failed")
	}
	for i := 0; i < 50; i++ {
		done := make(chan [2]uint64)
		go func() { done <- [2]uint64{goid(), goidSlow()} }()
		v := <-done
		if v[0] != v[1] || v[0] == 0 {
			t.Fatalf("fast goid %d != slow goid %d", v[0], v[1])
		}
	}
	t.Logf("goid offset %d", goidOffset)
}
