package simrt

import (
	"sync"
	"unsafe"
)

// Mutex wrappers. The mutex stays real, so the race detector sees the
// program's own acquire/release edges; only the *waiting* is simulated.

func Lock(site string, mu *sync.Mutex) {
	lockLoop(site, mu.TryLock, mu.Lock, unsafe.Pointer(mu))
}

func Unlock(site string, mu *sync.Mutex) {
	mu.Unlock()
	unlockNotify(unsafe.Pointer(mu))
}

func RWLock(site string, mu *sync.RWMutex) {
	lockLoop(site, mu.TryLock, mu.Lock, unsafe.Pointer(mu))
}

func RWUnlock(site string, mu *sync.RWMutex) {
	mu.Unlock()
	unlockNotify(unsafe.Pointer(mu))
}

func RLock(site string, mu *sync.RWMutex) {
	lockLoop(site, mu.TryRLock, mu.RLock, unsafe.Pointer(mu))
}

func RUnlock(site string, mu *sync.RWMutex) {
	mu.RUnlock()
	unlockNotify(unsafe.Pointer(mu))
}

// OnceDo replaces (*sync.Once).Do. Once blocks concurrent callers on an
// internal mutex, which synctest does not treat as durably blocking; the
// function is therefore run without preemption.
func OnceDo(site string, once *sync.Once, f func()) {
	Point(site)
	BeginAtomic()
	defer EndAtomic()
	once.Do(f)
}

// WaitGroupWait replaces (*sync.WaitGroup).Wait with yields around it.
func WaitGroupWait(site string, wg *sync.WaitGroup) {
	Yield(site)
	wg.Wait()
	Yield(site)
}
