#include "textflag.h"

// func getg() unsafe.Pointer
TEXT ·getg(SB),NOSPLIT,$0-8
	MOVQ (TLS), AX
	MOVQ AX, ret+0(FP)
	RET
