//go:build go1.25

// Package simrt is the simulation runtime that instrumented copies of the
// repository call into (see /verif/DESIGN.md §3.3).
//
// One simulated run executes inside one testing/synctest bubble. The bubble's
// root goroutine is the scheduler: it waits until every other goroutine is
// durably blocked (synctest.Wait), collects the goroutines that are parked at
// a yield point, chooses one from a seeded PRNG (or from an explicit schedule)
// and resumes it. Exactly one program goroutine runs between two decisions.
//
// Rules that keep the race detector honest (validated by prototype):
//   - every function here that touches simulator state is //go:norace, so the
//     simulator's own memory accesses are invisible to the detector;
//   - the hand-off operations (inbox send, resume receive, synctest.Wait) are
//     bracketed by runtime.RaceDisable/RaceEnable, so they add no
//     happens-before edge between program goroutines;
//   - no std-lib helper (fmt, sort, maps) is called on memory that is shared
//     between the scheduler and a task.
package simrt

import (
	"fmt"
	"runtime"
	"runtime/debug"
	"testing"
	"testing/synctest"
	"time"
	"unsafe"
)

// ---------------------------------------------------------------------------
// configuration and result

// Schedule is the explicit, replayable form of every choice the simulator
// made in a run, expressed as deviations from the default rule ("keep running
// the current goroutine while it is runnable, otherwise the lowest id; never
// preempt at a Point; select order 0; never advance the clock while something
// is runnable").
type Schedule struct {
	// Dev maps a decision key to the chosen task name (or "@clock").
	Dev []DevEntry `json:"dev,omitempty"`
	// Points lists the global Point() indexes that were turned into yields.
	Points []int64 `json:"points,omitempty"`
	// Sel lists (n-th SelectOrder call, permutation index) for non-zero choices.
	Sel [][2]int64 `json:"sel,omitempty"`
}

type DevEntry struct {
	Key    string `json:"k"`
	Choose string `json:"c"`
}

type Config struct {
	Seed uint64 `json:"seed"`
	// Mode: "default", "random", "pct", "explicit".
	Mode string `json:"mode"`
	// PreemptProb is the probability (random mode) of switching away from a
	// runnable current goroutine at a yield.
	PreemptProb float64 `json:"preempt_prob,omitempty"`
	// PointGap is the mean number of Point() calls between two point
	// preemptions (0 = never preempt at a Point).
	PointGap int64 `json:"point_gap,omitempty"`
	// StallSteps > 0: a goroutine preempted at a Point is stalled (not
	// chosen while anybody else can run) for 1..2*StallSteps decisions: a
	// slow thread, which turns a window of a few instructions into a long one.
	StallSteps int64 `json:"stall_steps,omitempty"`
	// PCTDepth is the number of priority change points (pct mode).
	PCTDepth int `json:"pct_depth,omitempty"`
	// PCTHorizon is the step range in which change points are placed.
	PCTHorizon int64 `json:"pct_horizon,omitempty"`
	// SelectRandom lets SelectOrder pick a random permutation.
	SelectRandom bool `json:"select_random,omitempty"`
	// ClockProb is the probability of advancing the clock to the next
	// sleeper although something is runnable.
	ClockProb float64 `json:"clock_prob,omitempty"`
	// MapOrder: "identity" (canonical sorted order), "reverse", "shuffle".
	MapOrder string `json:"map_order,omitempty"`
	MapSeed  uint64 `json:"map_seed,omitempty"`
	// ChanCaps: "keep" (or empty) leaves the constant capacities of buffered
	// channels as written; "small" replaces each capacity of 8 or more by a
	// value in 1..4 derived from (ChanSeed, site).
	ChanCaps string `json:"chan_caps,omitempty"`
	ChanSeed uint64 `json:"chan_seed,omitempty"`
	// Explicit is used when Mode == "explicit".
	Explicit *Schedule `json:"explicit,omitempty"`
	// MaxSteps bounds the number of scheduler decisions (0 = 2e6).
	MaxSteps int64 `json:"max_steps,omitempty"`
	// Today: the fake clock is advanced to this instant before the workload
	// starts (zero = 2000-01-01T00:00:00Z, the bubble's epoch).
	Today time.Time `json:"today,omitempty"`
	// Trace records a textual event log (for replay output and diffing).
	Trace bool `json:"trace,omitempty"`
	// Labels gives canonical ranks for pointer map keys (see MapKeys).
	Labels map[unsafe.Pointer]int `json:"-"`
	// KeyFn gives a canonical sort key for a pointer map key that has no
	// label (false: this kind of object has none).
	KeyFn func(key, value interface{}) (string, bool) `json:"-"`
	// StopAtRootReturn ends the run as soon as the workload function has
	// returned, the way a process ends when main returns; whatever is still
	// alive is reported as leaked. Without it the remaining goroutines run
	// on until nothing is runnable.
	StopAtRootReturn bool `json:"stop_at_root_return,omitempty"`
}

type CrashInfo struct {
	Task  string `json:"task"`
	Value string `json:"value"`
	Stack string `json:"stack"`
}

type TaskInfo struct {
	Name  string `json:"name"`
	State string `json:"state"`
	Site  string `json:"site"`
}

type Result struct {
	// Outcome: "completed", "crash", "hang", "steplimit".
	Outcome string     `json:"outcome"`
	Crash   *CrashInfo `json:"crash,omitempty"`
	// RootReturned is true when the workload function returned normally.
	RootReturned bool `json:"root_returned"`
	// Leaked lists goroutines that were still alive (blocked) at the end.
	Leaked []TaskInfo `json:"leaked,omitempty"`

	Steps          int64 `json:"steps"`
	Contended      int64 `json:"contended"`
	Deviations     int64 `json:"deviations"`
	Stalls         int64 `json:"stalls,omitempty"`
	PointPreempts  int64 `json:"point_preempts"`
	SelectReorders int64 `json:"select_reorders"`
	MapPermuted    int64 `json:"map_permuted"`
	MapUnlabelled  int64 `json:"map_unlabelled"`
	ChanCapsSmall  int64 `json:"chan_caps_small"`
	ClockAdvances  int64 `json:"clock_advances"`
	IdleWakes      int64 `json:"idle_wakes"`
	Infeasible     int64 `json:"infeasible"`
	LockContended  int64 `json:"lock_contended"`
	Tasks          int64 `json:"tasks"`
	Points         int64 `json:"points"`
	SimTimeNs      int64 `json:"sim_time_ns"`

	// Hash covers every decision (step, runnable set, choice, site);
	// ContendedHash only decisions with at least two runnable goroutines.
	Hash          uint64 `json:"hash"`
	ContendedHash uint64 `json:"contended_hash"`

	Recorded Schedule       `json:"recorded"`
	Switches map[string]int `json:"switches,omitempty"`
	Probes   map[string]int `json:"probes,omitempty"`
	Trace    []string       `json:"trace,omitempty"`
	// RaceAtEnd is the process-wide race report count at the moment the
	// scheduler stopped. What is reported afterwards comes from goroutines
	// that run on unscheduled while the bubble is torn down and is not
	// replayable.
	RaceAtEnd int `json:"race_at_end"`
	// BubblePanic is set when the bubble ended with a synctest panic other
	// than the expected "blocked goroutines remain" one.
	BubblePanic string `json:"bubble_panic,omitempty"`
}

// ---------------------------------------------------------------------------
// tasks, messages

const (
	stNew int32 = iota
	stRunning
	stParked
	stSleeping
	stLockWait
	stDone
	stBlocked // derived: running from the scheduler's view but not parked
)

type Task struct {
	name      string
	path      []int32
	resume    chan int32
	nchild    int32
	yields    int64
	nopreempt int32
	killed    bool
	isRoot    bool

	// scheduler-owned
	state  int32
	prio   int64
	site   string
	waitMu unsafe.Pointer
	wake   int64
	// stallUntil: not chosen before this step while others are runnable
	stallUntil int64

	panicVal   string
	panicStack string
}

const (
	mNew int32 = iota
	mPark
	mLockWait
	mDone
	mCrash
	mUnlock
	mSleep
)

type msg struct {
	kind int32
	t    *Task
	site string
	p    unsafe.Pointer
	wake int64
}

type probe struct {
	name string
	n    int64
}

type Sim struct {
	cfg   Config
	inbox chan msg
	dead  bool

	// scheduler-owned
	tasks     []*Task
	current   *Task
	rootDone  bool
	crash     *Task
	rng       prng
	steps     int64
	res       Result
	dev       map[string]string
	pctPoints []int64
	lowPrio   int64
	switches  map[string]int
	trace     []string
	start     time.Time

	// task-side (touched only by the single running goroutine)
	points       int64
	nextPoint    int64
	pointCursor  int
	forcePreempt bool
	unstalled    []*Task
	siteStall    bool // StallSteps > 0 and not replaying
	stallEnd     int64
	sites        [1024]uintptr
	nsites       int
	trng         prng
	selCalls     int64
	selCursor    int
	mapCalls     int64
	recPoints    []int64
	recSel       [][2]int64
	selReorders  int64
	mapPermuted  int64
	mapUnlab     int64
	lockCont     int64
	probes       []probe
	chanKnob     int64
	endToken     int64
}

// cur is the active simulation (at most one per process at a time). It is
// only ever touched from //go:norace functions.
var cur *Sim

//go:norace
func getCur() *Sim { return cur }

//go:norace
func setCur(s *Sim) { cur = s }

// ---------------------------------------------------------------------------
// tiny PRNG (splitmix64), usable from norace code

type prng struct{ s uint64 }

//go:norace
func (r *prng) next() uint64 {
	r.s += 0x9e3779b97f4a7c15
	z := r.s
	z = (z ^ (z >> 30)) * 0xbf58476d1ce4e5b9
	z = (z ^ (z >> 27)) * 0x94d049bb133111eb
	return z ^ (z >> 31)
}

//go:norace
func (r *prng) intn(n int64) int64 {
	if n <= 1 {
		return 0
	}
	return int64(r.next() % uint64(n))
}

//go:norace
func (r *prng) float() float64 {
	return float64(r.next()>>11) / float64(1<<53)
}

// ---------------------------------------------------------------------------
// goroutine identity: goid -> *Task in a table of atomics

//go:norace
func goidSlow() uint64 {
	var buf [40]byte
	n := runtime.Stack(buf[:], false)
	// "goroutine 123 [running]:..."
	var id uint64
	for i := 10; i < n; i++ {
		c := buf[i]
		if c < '0' || c > '9' {
			break
		}
		id = id*10 + uint64(c-'0')
	}
	return id
}

// self returns the task of the calling goroutine or nil. Must be called with
// race synchronisation disabled.
//
//go:norace
func self() *Task {
	return tabLookup(goid())
}

// ---------------------------------------------------------------------------
// task side

//go:norace
func (s *Sim) send(m msg) {
	s.inbox <- m
}

// park hands control to the scheduler and waits to be resumed.
//
//go:norace
func (s *Sim) park(t *Task, kind int32, site string, p unsafe.Pointer) {
	raceReleaseMerge(unsafe.Pointer(&s.endToken))
	raceDisable()
	if s.dead || t.killed {
		raceEnable()
		if s.dead && !t.killed {
			t.killed = true
			runtime.Goexit()
		}
		return
	}
	t.yields++
	s.inbox <- msg{kind: kind, t: t, site: site, p: p}
	v := <-t.resume
	if v != 0 {
		t.killed = true
		raceEnable()
		runtime.Goexit()
	}
	raceEnable()
}

// Yield is a scheduling point: the calling goroutine parks and the scheduler
// decides who runs next. Inert outside a simulation.
//
//go:norace
func Yield(site string) {
	s := cur
	if s == nil {
		return
	}
	raceDisable()
	t := self()
	raceEnable()
	if t == nil || t.nopreempt > 0 {
		return
	}
	s.park(t, mPark, site, nil)
}

// Point is a cheap preemption opportunity (sync.Map operations, WaitGroup
// Add/Done, atomics): it becomes a Yield only where the schedule says so.
//
//go:norace
func Point(site string) {
	s := cur
	if s == nil {
		return
	}
	s.points++
	if s.siteStall && s.firstVisit(site) && s.stallEnd <= s.steps && s.trng.intn(3) == 0 {
		// the first time this run reaches this lookup: code that runs
		// rarely (a rebuild, a first fill) starts here, and the goroutine
		// that runs it is the one that is slow today
		s.pointStall(site)
		return
	}
	if s.points != s.nextPoint {
		return
	}
	s.pointHit(site)
}

// firstVisit reports whether no Point with this site ran before in this run.
// Sites are string constants, one per call site: the address of the bytes
// identifies the site (only "seen before or not" is used, never the address).
//
//go:norace
func (s *Sim) firstVisit(site string) bool {
	p := uintptr(unsafe.Pointer(unsafe.StringData(site)))
	if p == 0 || s.nsites >= len(s.sites)/2 {
		return false
	}
	i := int((uint64(p>>3) * 0x9e3779b97f4a7c15) >> 54)
	for {
		switch s.sites[i] {
		case p:
			return false
		case 0:
			s.sites[i] = p
			s.nsites++
			return true
		}
		i = (i + 1) & (len(s.sites) - 1)
	}
}

//go:norace
func (s *Sim) pointStall(site string) {
	raceDisable()
	t := self()
	raceEnable()
	if t == nil || t.nopreempt > 0 || s.dead {
		return
	}
	s.forcePreempt = true
	t.stallUntil = s.steps + 1 + s.trng.intn(2*s.cfg.StallSteps)
	s.stallEnd = t.stallUntil
	s.res.Stalls++
	s.recPoints = append(s.recPoints, s.points)
	s.park(t, mPark, site, nil)
}

//go:norace
func (s *Sim) pointHit(site string) {
	// next preemption point
	if s.cfg.Mode == "explicit" {
		s.nextPoint = 0
		if s.cfg.Explicit != nil {
			for s.pointCursor < len(s.cfg.Explicit.Points) {
				p := s.cfg.Explicit.Points[s.pointCursor]
				s.pointCursor++
				if p > s.points {
					s.nextPoint = p
					break
				}
			}
		}
	} else if s.cfg.PointGap > 0 {
		s.nextPoint = s.points + 1 + s.trng.intn(2*s.cfg.PointGap)
	} else {
		s.nextPoint = 0
	}
	raceDisable()
	t := self()
	raceEnable()
	if t == nil || t.nopreempt > 0 || s.dead {
		return
	}
	s.forcePreempt = true
	if s.siteStall && s.stallEnd <= s.steps && s.trng.intn(4) == 0 {
		// one slow goroutine at a time
		t.stallUntil = s.steps + 1 + s.trng.intn(2*s.cfg.StallSteps)
		s.stallEnd = t.stallUntil
		s.res.Stalls++
	}
	s.recPoints = append(s.recPoints, s.points)
	s.park(t, mPark, site, nil)
}

// Go starts fn as a simulated goroutine. The child gets the deterministic id
// "<parent>.<n>", parks before its first instruction, and a panic inside it is
// captured as the run's crash outcome.
//
//go:norace
func Go(site string, fn func()) {
	s := cur
	var parent *Task
	if s != nil {
		raceDisable()
		parent = self()
		raceEnable()
	}
	if parent == nil || s.dead {
		go fn()
		return
	}
	parent.nchild++
	child := newTask(parent, parent.nchild)
	raceDisable()
	s.inbox <- msg{kind: mNew, t: child, site: site}
	raceEnable()
	go s.taskMain(child, fn)
	if parent.nopreempt == 0 {
		s.park(parent, mPark, site, nil)
	}
}

//go:norace
func newTask(parent *Task, n int32) *Task {
	t := &Task{resume: make(chan int32, 1)}
	if parent == nil {
		t.name = "0"
		t.path = []int32{0}
		return t
	}
	t.path = make([]int32, len(parent.path)+1)
	copy(t.path, parent.path)
	t.path[len(parent.path)] = n
	t.name = parent.name + "." + itoa(int64(n))
	return t
}

//go:norace
func (s *Sim) taskMain(t *Task, fn func()) {
	raceDisable()
	tabInsert(goid(), t)
	raceEnable()
	defer s.taskExit(t)
	// wait for the first resume
	raceDisable()
	v := <-t.resume
	raceEnable()
	if v != 0 {
		t.killed = true
		return
	}
	fn()
}

//go:norace
func (s *Sim) taskExit(t *Task) {
	r := recover()
	raceReleaseMerge(unsafe.Pointer(&s.endToken))
	if r != nil && !t.killed {
		t.panicVal = panicString(r)
		t.panicStack = string(debug.Stack())
	}
	raceDisable()
	tabDelete(goid())
	if !t.killed && !s.dead {
		if r != nil {
			s.inbox <- msg{kind: mCrash, t: t}
		} else {
			s.inbox <- msg{kind: mDone, t: t}
		}
	}
	raceEnable()
}

func panicString(r interface{}) (s string) {
	defer func() {
		if recover() != nil {
			s = "<panic value could not be printed>"
		}
	}()
	if e, ok := r.(runtime.Error); ok {
		return "runtime error: " + trimPrefix(e.Error(), "runtime error: ")
	}
	return fmt.Sprint(r)
}

func trimPrefix(s, p string) string {
	if len(s) >= len(p) && s[:len(p)] == p {
		return s[len(p):]
	}
	return s
}

// Sleep replaces time.Sleep: the scheduler learns the wake-up instant, so
// "advance the clock to the next sleeper" becomes one of its choices.
//
//go:norace
func Sleep(site string, d time.Duration) {
	s := cur
	if s == nil {
		time.Sleep(d)
		return
	}
	raceDisable()
	t := self()
	raceEnable()
	if t == nil || t.nopreempt > 0 || s.dead {
		time.Sleep(d)
		return
	}
	s.park(t, mPark, site, nil)
	wake := time.Now().Add(d).UnixNano()
	raceDisable()
	s.inbox <- msg{kind: mSleep, t: t, site: site, wake: wake}
	raceEnable()
	time.Sleep(d)
	s.park(t, mPark, site, nil)
}

// Lock replaces (*sync.Mutex).Lock. A goroutine blocked on a mutex is not
// durably blocked for synctest, so the wait is turned into a park until the
// mutex is unlocked. The mutex itself stays real (real race edges).
//
//go:norace
func lockLoop(site string, try func() bool, lock func(), addr unsafe.Pointer) {
	s := cur
	if s == nil {
		lock()
		return
	}
	raceDisable()
	t := self()
	raceEnable()
	if t == nil || s.dead {
		lock()
		return
	}
	if t.nopreempt > 0 {
		lock()
		return
	}
	s.park(t, mPark, site, nil)
	for !try() {
		s.lockCont++
		s.park(t, mLockWait, site, addr)
	}
}

//go:norace
func unlockNotify(addr unsafe.Pointer) {
	s := cur
	if s == nil {
		return
	}
	raceDisable()
	t := self()
	if t != nil && !s.dead && !t.killed {
		s.inbox <- msg{kind: mUnlock, t: t, p: addr}
	}
	raceEnable()
}

// BeginAtomic / EndAtomic bracket a region in which the calling goroutine is
// never preempted (used around sync.Once.Do).
//
//go:norace
func BeginAtomic() {
	s := cur
	if s == nil {
		return
	}
	raceDisable()
	t := self()
	raceEnable()
	if t != nil {
		t.nopreempt++
	}
}

//go:norace
func EndAtomic() {
	s := cur
	if s == nil {
		return
	}
	raceDisable()
	t := self()
	raceEnable()
	if t != nil && t.nopreempt > 0 {
		t.nopreempt--
	}
}

// SelectOrder returns which permutation of a select statement's ready-case
// polling order to use (0 <= result < n!).
//
//go:norace
func SelectOrder(site string, n int) int {
	s := cur
	if s == nil || s.dead {
		return 0
	}
	idx := s.selCalls
	s.selCalls++
	nperm := int64(1)
	for i := 2; i <= n; i++ {
		nperm *= int64(i)
	}
	var p int64
	if s.cfg.Mode == "explicit" {
		if s.cfg.Explicit != nil {
			for s.selCursor < len(s.cfg.Explicit.Sel) && s.cfg.Explicit.Sel[s.selCursor][0] < idx {
				s.selCursor++
			}
			if s.selCursor < len(s.cfg.Explicit.Sel) && s.cfg.Explicit.Sel[s.selCursor][0] == idx {
				p = s.cfg.Explicit.Sel[s.selCursor][1] % nperm
			}
		}
	} else if s.cfg.SelectRandom {
		p = s.trng.intn(nperm)
	}
	if p != 0 {
		s.recSel = append(s.recSel, [2]int64{idx, p})
		s.selReorders++
	}
	return int(p)
}

// ChanCap is the capacity to use for a buffered channel whose capacity is a
// constant of 8 or more in the source (a tuning knob, see Config.ChanCaps).
//
//go:norace
func ChanCap(site string, n int) int {
	s := cur
	if s == nil || s.dead || s.cfg.ChanCaps != "small" {
		return n
	}
	h := hashStr(s.cfg.ChanSeed^fnvOff, site)
	c := 1 + int(h%4)
	if c > n {
		c = n
	}
	s.chanKnob++
	return c
}

// Probe counts a rare condition for the evidence.
//
//go:norace
func Probe(name string) {
	s := cur
	if s == nil || s.dead {
		return
	}
	for i := range s.probes {
		if s.probes[i].name == name {
			s.probes[i].n++
			return
		}
	}
	s.probes = append(s.probes, probe{name, 1})
}

// ProbeIf counts name when cond holds.
//
//go:norace
func ProbeIf(name string, cond bool) {
	if cond {
		Probe(name)
	}
}

// Active reports whether the calling goroutine is a simulated task.
//
//go:norace
func Active() bool {
	s := cur
	if s == nil || s.dead {
		return false
	}
	raceDisable()
	t := self()
	raceEnable()
	return t != nil
}

//go:norace
func itoa(v int64) string {
	if v == 0 {
		return "0"
	}
	var b [24]byte
	i := len(b)
	neg := v < 0
	if neg {
		v = -v
	}
	for v > 0 {
		i--
		b[i] = byte('0' + v%10)
		v /= 10
	}
	if neg {
		i--
		b[i] = '-'
	}
	return string(b[i:])
}

// ---------------------------------------------------------------------------
// scheduler

//go:norace
func lessPath(a, b []int32) bool {
	for i := 0; i < len(a) && i < len(b); i++ {
		if a[i] != b[i] {
			return a[i] < b[i]
		}
	}
	return len(a) < len(b)
}

//go:norace
func (s *Sim) handle(m msg) {
	switch m.kind {
	case mNew:
		m.t.state = stNew
		m.t.site = m.site
		m.t.prio = int64(s.rng.next() >> 2)
		s.tasks = append(s.tasks, m.t)
		s.res.Tasks++
		// a new task is immediately "parked at start"
		m.t.state = stParked
	case mPark:
		m.t.state = stParked
		m.t.site = m.site
	case mLockWait:
		m.t.state = stLockWait
		m.t.site = m.site
		m.t.waitMu = m.p
	case mSleep:
		m.t.state = stSleeping
		m.t.site = m.site
		m.t.wake = m.wake
		if s.cfg.Mode == "pct" {
			// PCT runs the highest priority strictly and has no fairness: a
			// goroutine that polls (select-default-sleep) at a high priority
			// would starve everything else for ever once the clock may be
			// advanced. As usual for PCT, a goroutine that sleeps drops below
			// everybody else.
			s.lowPrio--
			m.t.prio = s.lowPrio
		}
	case mDone:
		m.t.state = stDone
		if m.t.isRoot {
			s.rootDone = true
		}
	case mCrash:
		m.t.state = stDone
		if s.crash == nil {
			s.crash = m.t
		}
	case mUnlock:
		for _, t := range s.tasks {
			if t.state == stLockWait && t.waitMu == m.p {
				t.state = stParked
				t.waitMu = nil
			}
		}
	}
}

//go:norace
func (s *Sim) drain() {
	for {
		select {
		case m := <-s.inbox:
			s.handle(m)
		default:
			return
		}
	}
}

const fnvOff = 14695981039346656037
const fnvPrime = 1099511628211

//go:norace
func hashStr(h uint64, str string) uint64 {
	for i := 0; i < len(str); i++ {
		h = (h ^ uint64(str[i])) * fnvPrime
	}
	return (h ^ 0xff) * fnvPrime
}

//go:norace
func hashInt(h uint64, v int64) uint64 {
	for i := 0; i < 8; i++ {
		h = (h ^ uint64(byte(v>>(8*uint(i))))) * fnvPrime
	}
	return h
}

//go:norace
func (s *Sim) schedule() string {
	maxSteps := s.cfg.MaxSteps
	if maxSteps <= 0 {
		maxSteps = 2000000
	}
	var run []*Task
	for {
		raceDisable()
		synctest.Wait()
		s.drain()
		raceEnable()

		if s.crash != nil {
			return "crash"
		}

		run = run[:0]
		sleepers := 0
		var minWake int64
		for _, t := range s.tasks {
			switch t.state {
			case stParked:
				// insertion sort by path keeps the runnable list canonical
				run = append(run, t)
				for i := len(run) - 1; i > 0 && lessPath(run[i].path, run[i-1].path); i-- {
					run[i], run[i-1] = run[i-1], run[i]
				}
			case stSleeping:
				if sleepers == 0 || t.wake < minWake {
					minWake = t.wake
				}
				sleepers++
			}
		}

		if s.rootDone && s.cfg.StopAtRootReturn {
			return "completed"
		}

		if len(run) == 0 {
			if s.rootDone && sleepers == 0 {
				return "completed"
			}
			// Nothing is runnable: let the fake clock run. A sleeper (or any
			// timer the instrumenter did not see) wakes and parks; if an
			// hour of simulated time passes in silence the run is over.
			raceDisable()
			timer := time.NewTimer(time.Hour)
			var got bool
			select {
			case m := <-s.inbox:
				s.handle(m)
				got = true
			case <-timer.C:
			}
			timer.Stop()
			raceEnable()
			if got {
				s.res.IdleWakes++
				continue
			}
			if s.rootDone {
				return "completed"
			}
			return "hang"
		}

		if s.steps >= maxSteps {
			return "steplimit"
		}

		prev := s.current
		var def *Task
		var key string
		if prev != nil && prev.state == stParked {
			def = prev
			key = prev.name + "#" + itoa(prev.yields)
		} else {
			def = run[0]
			key = "!" + itoa(s.steps)
		}
		cand, cdef := run, def
		if s.siteStall {
			// stalled goroutines stay behind while anybody else can run
			cand = s.unstalled[:0]
			for _, t := range run {
				if t.stallUntil <= s.steps {
					cand = append(cand, t)
				}
			}
			s.unstalled = cand
			if len(cand) == 0 {
				cand = run
			} else if def.stallUntil > s.steps {
				cdef = cand[0]
			}
		}
		choice, clock := s.choose(cand, cdef, prev, key, sleepers > 0)
		s.forcePreempt = false

		if clock {
			s.res.ClockAdvances++
			s.res.Deviations++
			s.res.Recorded.Dev = append(s.res.Recorded.Dev, DevEntry{key, "@clock"})
			s.res.Hash = hashStr(hashInt(s.res.Hash, s.steps), "@clock")
			if s.cfg.Trace {
				s.trace = append(s.trace, itoa(s.steps)+" @clock")
			}
			s.steps++
			d := time.Duration(minWake - time.Now().UnixNano())
			if d < 1 {
				d = 1
			}
			raceDisable()
			time.Sleep(d)
			raceEnable()
			continue
		}

		if choice != def {
			s.res.Deviations++
			s.res.Recorded.Dev = append(s.res.Recorded.Dev, DevEntry{key, choice.name})
		}
		h := hashInt(s.res.Hash, s.steps)
		for _, t := range run {
			h = hashStr(h, t.name)
		}
		h = hashStr(h, choice.name)
		h = hashStr(h, choice.site)
		s.res.Hash = h
		if len(run) >= 2 {
			s.res.Contended++
			s.res.ContendedHash = hashStr(hashStr(s.res.ContendedHash, choice.name), choice.site)
		}
		if prev != nil && prev != choice {
			s.switches[prev.site+">"+choice.site]++
		}
		if s.cfg.Trace {
			line := itoa(s.steps) + " ["
			for i, t := range run {
				if i > 0 {
					line += " "
				}
				line += t.name
			}
			line += "] -> " + choice.name + " @" + choice.site + " t=" + itoa(int64(time.Since(s.start)))
			s.trace = append(s.trace, line)
		}
		s.steps++
		s.current = choice
		choice.state = stRunning
		raceDisable()
		choice.resume <- 0
		raceEnable()
	}
}

//go:norace
func (s *Sim) choose(run []*Task, def, prev *Task, key string, haveSleepers bool) (*Task, bool) {
	switch s.cfg.Mode {
	case "explicit":
		if c, ok := s.dev[key]; ok {
			if c == "@clock" {
				if haveSleepers {
					return nil, true
				}
				s.res.Infeasible++
				return def, false
			}
			for _, t := range run {
				if t.name == c {
					return t, false
				}
			}
			s.res.Infeasible++
		}
		return def, false

	case "random":
		if haveSleepers && s.cfg.ClockProb > 0 && s.rng.float() < s.cfg.ClockProb {
			return nil, true
		}
		if len(run) < 2 {
			return def, false
		}
		if def == prev {
			// current goroutine is runnable: preempt?
			if s.forcePreempt || s.rng.float() < s.cfg.PreemptProb {
				i := s.rng.intn(int64(len(run) - 1))
				for _, t := range run {
					if t == prev {
						continue
					}
					if i == 0 {
						return t, false
					}
					i--
				}
			}
			return def, false
		}
		// the current goroutine blocked or ended: free choice
		return run[s.rng.intn(int64(len(run)))], false

	case "pct":
		if s.forcePreempt && prev != nil && prev.state == stParked {
			// a preemption at a lookup point is a priority change point too:
			// the goroutine stays behind until everybody else is blocked
			// (how a short window between two of its steps becomes a long one)
			s.lowPrio--
			prev.prio = s.lowPrio
		}
		for len(s.pctPoints) > 0 && s.pctPoints[0] <= s.steps {
			if prev != nil {
				prev.prio = -int64(len(s.pctPoints))
			}
			s.pctPoints = s.pctPoints[1:]
		}
		if haveSleepers && s.cfg.ClockProb > 0 && s.rng.float() < s.cfg.ClockProb {
			return nil, true
		}
		best := run[0]
		for _, t := range run[1:] {
			if t.prio > best.prio {
				best = t
			}
		}
		return best, false
	}
	return def, false
}

// ---------------------------------------------------------------------------
// Run

// Run executes root as the workload of one simulated run and returns what
// happened. It must be called from a test (synctest needs a *testing.T) and
// only one Run may be active per process at a time.
func Run(t *testing.T, cfg Config, root func()) (res Result) {
	if getCur() != nil {
		panic("simrt: nested Run")
	}
	s := &Sim{cfg: cfg}
	s.rng = prng{cfg.Seed ^ 0x5eed5eed5eed5eed}
	s.trng = prng{cfg.Seed*0x9e3779b97f4a7c15 + 0x1234567}
	s.dev = map[string]string{}
	s.switches = map[string]int{}
	if cfg.Mode == "explicit" && cfg.Explicit != nil {
		for _, d := range cfg.Explicit.Dev {
			s.dev[d.Key] = d.Choose
		}
		if len(cfg.Explicit.Points) > 0 {
			s.nextPoint = cfg.Explicit.Points[0]
			s.pointCursor = 1
		}
	} else if cfg.PointGap > 0 && cfg.Mode != "default" {
		s.nextPoint = 1 + s.trng.intn(2*cfg.PointGap)
	}
	if cfg.Mode == "pct" {
		hz := cfg.PCTHorizon
		if hz <= 0 {
			hz = 500
		}
		for i := 0; i < cfg.PCTDepth; i++ {
			s.pctPoints = append(s.pctPoints, 1+s.rng.intn(hz))
		}
		sortInt64(s.pctPoints)
	}
	s.lowPrio = -1000
	s.siteStall = cfg.StallSteps > 0 && cfg.Mode != "explicit" && cfg.Mode != "default"
	s.res.Hash = fnvOff
	s.res.ContendedHash = fnvOff
	tabReset()

	outcome := ""
	// The bubble runs in a sub-test of its own: when the race detector
	// reports during the run, testing fails the bubble's test with FailNow
	// (a Goexit); only this inner goroutine is lost and Run still returns.
	t.Run("sim", func(t *testing.T) {
		defer func() {
			setCur(nil)
			if r := recover(); r != nil {
				msg := fmt.Sprint(r)
				if !contains(msg, "blocked goroutines remain") {
					s.res.BubblePanic = msg
				}
			}
		}()
		synctest.Test(t, func(t *testing.T) {
			s.inbox = make(chan msg, 1<<15)
			s.start = time.Now()
			if !cfg.Today.IsZero() {
				if d := cfg.Today.Sub(time.Now()); d > 0 {
					time.Sleep(d)
				}
				s.start = time.Now()
			}
			setCur(s)
			rootTask := newTask(nil, 0)
			rootTask.isRoot = true
			s.handle(msg{kind: mNew, t: rootTask, site: "root"})
			go s.taskMain(rootTask, root)
			outcome = s.schedule()
			s.res.RaceAtEnd = RaceErrors()
			s.res.SimTimeNs = int64(time.Since(s.start))
			s.finish()
			setCur(nil)
		})
	})
	setCur(nil)
	raceAcquire(unsafe.Pointer(&s.endToken))

	res = s.res
	res.Outcome = outcome
	if outcome == "" {
		res.Outcome = "aborted"
	}
	res.RootReturned = s.rootDone
	if s.crash != nil {
		res.Crash = &CrashInfo{Task: s.crash.name, Value: s.crash.panicVal, Stack: s.crash.panicStack}
	}
	res.Steps = s.steps
	res.Points = s.points
	res.PointPreempts = int64(len(s.recPoints))
	res.SelectReorders = s.selReorders
	res.MapPermuted = s.mapPermuted
	res.MapUnlabelled = s.mapUnlab
	res.ChanCapsSmall = s.chanKnob
	res.LockContended = s.lockCont
	res.Recorded.Points = s.recPoints
	res.Recorded.Sel = s.recSel
	res.Switches = s.switches
	res.Probes = map[string]int{}
	for _, p := range s.probes {
		res.Probes[p.name] = int(p.n)
	}
	res.Trace = s.trace
	return res
}

// finish ends the run inside the bubble: everything that is parked at a yield
// is told to exit, everything else is reported as leaked.
//
//go:norace
func (s *Sim) finish() {
	s.dead = true
	for _, t := range s.tasks {
		if t.state == stDone {
			continue
		}
		s.res.Leaked = append(s.res.Leaked, TaskInfo{t.name, stateName(t.state), t.site})
		if t.state == stParked || t.state == stLockWait {
			raceDisable()
			select {
			case t.resume <- 1:
			default:
			}
			raceEnable()
		}
	}
	raceDisable()
	synctest.Wait()
	raceEnable()
}

func stateName(st int32) string {
	switch st {
	case stParked:
		return "runnable"
	case stLockWait:
		return "lockwait"
	case stSleeping:
		return "sleeping"
	case stRunning:
		return "blocked"
	case stDone:
		return "done"
	}
	return "new"
}

func contains(s, sub string) bool {
	for i := 0; i+len(sub) <= len(s); i++ {
		if s[i:i+len(sub)] == sub {
			return true
		}
	}
	return false
}

func sortInt64(a []int64) {
	for i := 1; i < len(a); i++ {
		for j := i; j > 0 && a[j] < a[j-1]; j-- {
			a[j], a[j-1] = a[j-1], a[j]
		}
	}
}
