//go:build !race

package simrt

import "unsafe"

// RaceBuild reports whether the binary was built with the race detector.
const RaceBuild = false

func raceDisable()                      {}
func raceEnable()                       {}
func raceReleaseMerge(p unsafe.Pointer) {}
func raceAcquire(p unsafe.Pointer)      {}

// RaceErrors is the number of race reports printed by this process so far.
func RaceErrors() int { return 0 }
