package simrt

import (
	"reflect"
	"sort"
	"sync"
	"unsafe"
)

// MapKeys returns the keys of m in the order the simulation dictates:
// canonically sorted, then permuted by this run's map-order choice. Outside a
// simulation it returns Go's native (random) order.
func MapKeys[K comparable, V any](m map[K]V) []K {
	keys := make([]K, 0, len(m))
	for k := range m {
		keys = append(keys, k)
	}
	if len(keys) < 2 || !Active() {
		return keys
	}
	s := getCur()
	ok := canonicalSort(keys, func(i int) reflect.Value { return reflect.ValueOf(keys[i]) },
		func(i, j int) { keys[i], keys[j] = keys[j], keys[i] }, s, func(i int) interface{} { return m[keys[i]] })
	if !ok {
		noteUnlabelled(s)
		return keys
	}
	permute(len(keys), func(i, j int) { keys[i], keys[j] = keys[j], keys[i] }, s)
	return keys
}

type kv struct{ k, v interface{} }

// RangeSyncMap replaces (*sync.Map).Range.
func RangeSyncMap(m *sync.Map, f func(key, value interface{}) bool) {
	if !Active() {
		m.Range(f)
		return
	}
	var all []kv
	m.Range(func(k, v interface{}) bool {
		all = append(all, kv{k, v})
		return true
	})
	s := getCur()
	if len(all) >= 2 {
		ok := canonicalSort(all, func(i int) reflect.Value { return reflect.ValueOf(all[i].k) },
			func(i, j int) { all[i], all[j] = all[j], all[i] }, s, func(i int) interface{} { return all[i].v })
		if ok {
			permute(len(all), func(i, j int) { all[i], all[j] = all[j], all[i] }, s)
		} else {
			noteUnlabelled(s)
		}
	}
	for _, e := range all {
		if !f(e.k, e.v) {
			return
		}
	}
}

//go:norace
func noteUnlabelled(s *Sim) { s.mapUnlab++ }

type sorter struct {
	n    int
	less func(i, j int) bool
	swap func(i, j int)
}

func (s sorter) Len() int           { return s.n }
func (s sorter) Less(i, j int) bool { return s.less(i, j) }
func (s sorter) Swap(i, j int)      { s.swap(i, j) }

// canonicalSort sorts n elements whose keys are given by key(i). It returns
// false when the key type has no canonical order (unlabelled pointers).
func canonicalSort(slice interface{}, key func(int) reflect.Value, swap func(i, j int), s *Sim, val func(int) interface{}) bool {
	n := reflect.ValueOf(slice).Len()
	if n == 0 {
		return true
	}
	k0 := key(0)
	switch k0.Kind() {
	case reflect.String:
		sort.Stable(sorter{n, func(i, j int) bool { return key(i).String() < key(j).String() }, swap})
		return true
	case reflect.Int, reflect.Int8, reflect.Int16, reflect.Int32, reflect.Int64:
		sort.Stable(sorter{n, func(i, j int) bool { return key(i).Int() < key(j).Int() }, swap})
		return true
	case reflect.Uint, reflect.Uint8, reflect.Uint16, reflect.Uint32, reflect.Uint64:
		sort.Stable(sorter{n, func(i, j int) bool { return key(i).Uint() < key(j).Uint() }, swap})
		return true
	case reflect.Bool:
		sort.Stable(sorter{n, func(i, j int) bool { return !key(i).Bool() && key(j).Bool() }, swap})
		return true
	case reflect.Ptr, reflect.UnsafePointer:
		labels := s.cfg.Labels
		labelled := labels != nil
		for i := 0; labelled && i < n; i++ {
			if _, ok := labels[unsafe.Pointer(key(i).Pointer())]; !ok {
				labelled = false
			}
		}
		if !labelled {
			// no ranks for these pointers (the program under test made the
			// objects itself): order them by what the harness can say about
			// their content; objects it cannot tell apart keep Go's order
			if s.cfg.KeyFn == nil || k0.Kind() != reflect.Ptr {
				return false
			}
			keys := make([]string, n)
			for i := 0; i < n; i++ {
				ks, ok := s.cfg.KeyFn(key(i).Interface(), val(i))
				if !ok {
					return false
				}
				keys[i] = ks
			}
			sort.Stable(sorter{n, func(i, j int) bool { return keys[i] < keys[j] }, func(i, j int) {
				keys[i], keys[j] = keys[j], keys[i]
				swap(i, j)
			}})
			return true
		}
		sort.Stable(sorter{n, func(i, j int) bool {
			return labels[unsafe.Pointer(key(i).Pointer())] < labels[unsafe.Pointer(key(j).Pointer())]
		}, swap})
		return true
	case reflect.Interface:
		return false
	}
	return false
}

//go:norace
func mapCall(s *Sim) (mode string, seed uint64) {
	s.mapCalls++
	return s.cfg.MapOrder, s.cfg.MapSeed + uint64(s.mapCalls)*0x9e3779b97f4a7c15
}

//go:norace
func notePermuted(s *Sim) { s.mapPermuted++ }

func permute(n int, swap func(i, j int), s *Sim) {
	mode, seed := mapCall(s)
	switch mode {
	case "reverse":
		for i, j := 0, n-1; i < j; i, j = i+1, j-1 {
			swap(i, j)
		}
		notePermuted(s)
	case "shuffle":
		r := prng{seed}
		for i := n - 1; i > 0; i-- {
			j := int(r.intn(int64(i + 1)))
			swap(i, j)
		}
		notePermuted(s)
	}
}
