package harness

// Stream engine: C01 (encode/decode round trip through simulated writer, pipe
// and reader), C02 (decoded tree == reference line-grammar tree for every
// delivery), C03 (totality under truncation, read errors, zero-byte reads).
// DESIGN.md §5 C01-C03.

import (
	"bytes"
	"encoding/json"
	"errors"
	"fmt"
	"io"
	"math/rand/v2"
	"regexp"
	"strings"
	"testing"

	gedcom "github.com/elliotchance/gedcom/v39"
	"simrt"
)

// ---------------------------------------------------------------------------
// case description

type NodeSpec struct {
	Tag      string     `json:"t"`
	Value    string     `json:"v,omitempty"`
	Pointer  string     `json:"p,omitempty"`
	Children []NodeSpec `json:"c,omitempty"`
	// Rep > 1: the value is Value repeated Rep times (long lines without
	// long case files)
	Rep int `json:"rep,omitempty"`
}

// In case files every byte of a value or pointer is written as the rune with
// that code (as Segments are): JSON cannot hold strings that are not UTF-8.
type nodeSpecJSON struct {
	Tag      string     `json:"t"`
	Value    string     `json:"v,omitempty"`
	Pointer  string     `json:"p,omitempty"`
	Children []NodeSpec `json:"c,omitempty"`
	Rep      int        `json:"rep,omitempty"`
}

func bytesAsRunes(s string) string {
	r := make([]rune, 0, len(s))
	for i := 0; i < len(s); i++ {
		r = append(r, rune(s[i]))
	}
	return string(r)
}

func runesAsBytes(s string) string {
	b := make([]byte, 0, len(s))
	for _, r := range s {
		b = append(b, byte(r))
	}
	return string(b)
}

func (s NodeSpec) MarshalJSON() ([]byte, error) {
	return json.Marshal(nodeSpecJSON{s.Tag, bytesAsRunes(s.Value), bytesAsRunes(s.Pointer), s.Children, s.Rep})
}

func (s *NodeSpec) UnmarshalJSON(b []byte) error {
	var j nodeSpecJSON
	if err := json.Unmarshal(b, &j); err != nil {
		return err
	}
	*s = NodeSpec{Tag: j.Tag, Value: runesAsBytes(j.Value), Pointer: runesAsBytes(j.Pointer), Children: j.Children, Rep: j.Rep}
	return nil
}

func (s NodeSpec) value() string {
	if s.Rep > 1 {
		return strings.Repeat(s.Value, s.Rep)
	}
	return s.Value
}

type ReadPlan struct {
	// Chunks are the sizes of successive reads (cycled); 0 is a zero-byte read.
	Chunks []int `json:"chunks,omitempty"`
	// ErrAt >= 0: a non-EOF error is returned when this offset is reached.
	ErrAt       int  `json:"err_at"`
	ErrWithData bool `json:"err_with_data,omitempty"`
	// ErrOnce: the error is reported once (an interrupted call, a device that
	// recovers); the reads after it go on where the stream stopped.
	ErrOnce bool `json:"err_once,omitempty"`
	// TruncAt >= 0: the stream ends (EOF) at this offset.
	TruncAt int `json:"trunc_at"`
	// EOFWithData: the last read returns its bytes together with io.EOF.
	EOFWithData bool `json:"eof_with_data,omitempty"`
	// StallAt >= 0: from this offset on every read returns (0, nil).
	StallAt int `json:"stall_at"`
}

type WriteFault struct {
	K      int  `json:"k"`      // 1-based Write call
	Sticky bool `json:"sticky"` // every later call fails too
	Short  bool `json:"short"`  // accept half of the bytes and return an error
}

type StreamCfg struct {
	Mode                string       `json:"mode"` // roundtrip, structure, totality
	Forest              []NodeSpec   `json:"forest,omitempty"`
	HasBOM              bool         `json:"has_bom,omitempty"`
	Segments            []string     `json:"segments,omitempty"` // input bytes, one rune per byte, split after line ends
	AllowMultiLine      bool         `json:"allow_multi_line,omitempty"`
	AllowInvalidIndents bool         `json:"allow_invalid_indents,omitempty"`
	Plans               []ReadPlan   `json:"plans,omitempty"`
	AllTruncations      bool         `json:"all_truncations,omitempty"`
	AllReadErrors       bool         `json:"all_read_errors,omitempty"`
	AllWriteFaults      bool         `json:"all_write_faults,omitempty"`
	WriteFaults         []WriteFault `json:"write_faults,omitempty"`
	PipeCap             int          `json:"pipe_cap,omitempty"`
	PipeChunk           int          `json:"pipe_chunk,omitempty"`
	// PipePeers: that many more encoder|pipe|decoder chains run at the same
	// time under the same scheduler, each with a document and a pipe of its
	// own (users of the library in other goroutines of the process).
	PipePeers int `json:"pipe_peers,omitempty"`
	// Mutated: the stream was byte-mutated after generation, so it may leave
	// the unambiguous grammar: the reference tree is not compared, only the
	// delivery independence, the fix-point and the read-error oracle apply.
	Mutated bool `json:"mutated,omitempty"`
	// Edits (roundtrip): after the document has been built AND written once,
	// it is changed through the public API ("setsex 0 F", "addname 1 x /y/",
	// "sethusb 0 I2", "setwife 0 I1", "addbirth 0 1 Jan 1900"); the round trip
	// is judged on the edited document.
	Edits []string `json:"edits,omitempty"`
	// Prior: streams decoded (with the same options) before anything else in
	// this case: what a process has decoded before must not matter.
	Prior []string `json:"prior,omitempty"`
}

func bytesToSegs(b []byte) []string {
	var segs []string
	var cur []rune
	for _, c := range b {
		cur = append(cur, rune(c))
		if c == '\n' || c == '\r' {
			segs = append(segs, string(cur))
			cur = nil
		}
	}
	if len(cur) > 0 {
		segs = append(segs, string(cur))
	}
	return segs
}

func segsToBytes(segs []string) []byte {
	var b []byte
	for _, s := range segs {
		for _, r := range s {
			b = append(b, byte(r))
		}
	}
	return b
}

// ---------------------------------------------------------------------------
// simulated reader / writer / pipe

var errInjectedRead = errors.New("simulated stream: read failed")
var errInjectedWrite = errors.New("simulated stream: write failed")
var errReadBudget = errors.New("simulated stream: read budget exhausted (decoder does not terminate)")

type readBudgetPanic struct{}

type streamStats struct {
	reads, shortReads, zeroReads, readErrors, truncations, eofWithData int
}

type SimReader struct {
	data   []byte
	off    int
	plan   ReadPlan
	call   int
	budget int
	over   bool
	st     *streamStats
	// errFired: a one-time error has been reported
	errFired bool
}

func newSimReader(data []byte, plan ReadPlan, st *streamStats) *SimReader {
	return &SimReader{data: data, plan: plan, budget: 8*len(data) + 4096, st: st}
}

func (r *SimReader) Read(p []byte) (int, error) {
	r.st.reads++
	r.call++
	if r.call > 2*r.budget {
		// emergency brake: the decoder keeps reading although it has been
		// told (budget times) that the stream has failed; the only way out of
		// its loop is a panic, which decodeWith turns into "does not terminate"
		r.over = true
		panic(readBudgetPanic{})
	}
	if r.call > r.budget {
		r.over = true
		return 0, errReadBudget
	}
	end := len(r.data)
	if r.plan.TruncAt >= 0 && r.plan.TruncAt < end {
		end = r.plan.TruncAt
	}
	if r.plan.StallAt >= 0 && r.off >= r.plan.StallAt {
		r.st.zeroReads++
		return 0, nil
	}
	errAt := r.plan.ErrAt
	if r.plan.ErrOnce && r.errFired {
		errAt = -1
	}
	if errAt >= 0 && r.off >= errAt {
		r.st.readErrors++
		r.errFired = true
		return 0, errInjectedRead
	}
	if r.off >= end {
		if end < len(r.data) {
			r.st.truncations++
		}
		return 0, io.EOF
	}
	n := len(p)
	if len(r.plan.Chunks) > 0 {
		c := r.plan.Chunks[(r.call-1)%len(r.plan.Chunks)]
		if c == 0 {
			r.st.zeroReads++
			return 0, nil
		}
		if c < n {
			n = c
		}
	}
	if n > end-r.off {
		n = end - r.off
	}
	if errAt >= 0 && r.off+n > errAt {
		n = errAt - r.off
	}
	if r.plan.StallAt >= 0 && r.off+n > r.plan.StallAt {
		n = r.plan.StallAt - r.off
	}
	copy(p, r.data[r.off:r.off+n])
	r.off += n
	if n < len(p) {
		r.st.shortReads++
	}
	if errAt >= 0 && r.off >= errAt && r.plan.ErrWithData && n > 0 {
		r.st.readErrors++
		r.errFired = true
		return n, errInjectedRead
	}
	if r.off >= end && r.plan.EOFWithData && n > 0 {
		r.st.eofWithData++
		if end < len(r.data) {
			r.st.truncations++
		}
		return n, io.EOF
	}
	return n, nil
}

type SimWriter struct {
	accepted []byte
	calls    int
	faults   []WriteFault
	failed   bool
	fired    int
}

func (w *SimWriter) Write(p []byte) (int, error) {
	w.calls++
	fail, short := w.failed, false
	for _, f := range w.faults {
		if f.K == w.calls {
			fail, short = true, f.Short
			if f.Sticky {
				w.failed = true
			}
		}
	}
	if fail {
		w.fired++
		if short {
			n := len(p) / 2
			w.accepted = append(w.accepted, p[:n]...)
			return n, errInjectedWrite
		}
		return 0, errInjectedWrite
	}
	w.accepted = append(w.accepted, p...)
	return len(p), nil
}

// simPipe is a bounded pipe between an encoder goroutine and a decoder
// goroutine; both ends are scheduled by the simulator.
type simPipe struct {
	ch    chan []byte
	chunk int
	rest  []byte
}

func (p *simPipe) Write(b []byte) (int, error) {
	n := 0
	for len(b) > 0 {
		k := p.chunk
		if k <= 0 || k > len(b) {
			k = len(b)
		}
		simrt.Yield("pipe:write")
		p.ch <- append([]byte(nil), b[:k]...)
		simrt.Yield("pipe:write+")
		b = b[k:]
		n += k
	}
	return n, nil
}

func (p *simPipe) Close() {
	simrt.Yield("pipe:close")
	close(p.ch)
}

func (p *simPipe) Read(b []byte) (int, error) {
	if len(p.rest) == 0 {
		simrt.Yield("pipe:read")
		c, ok := <-p.ch
		simrt.Yield("pipe:read+")
		if !ok {
			return 0, io.EOF
		}
		p.rest = c
	}
	n := copy(b, p.rest)
	p.rest = p.rest[n:]
	return n, nil
}

// ---------------------------------------------------------------------------
// trees

type refNode struct {
	tag, value, pointer string
	kind                string
	children            []*refNode
}

func (n *refNode) dump(b *strings.Builder, depth int, withKind bool) {
	fmt.Fprintf(b, "%s%s|%q|%q", strings.Repeat(" ", depth), n.tag, n.pointer, n.value)
	if withKind {
		b.WriteString("|" + n.kind)
	}
	b.WriteByte('\n')
	for _, c := range n.children {
		c.dump(b, depth+1, withKind)
	}
}

func dumpForest(roots []*refNode, withKind bool) string {
	var b strings.Builder
	for _, r := range roots {
		r.dump(&b, 0, withKind)
	}
	return b.String()
}

func fromDoc(doc *gedcom.Document) []*refNode {
	var conv func(n gedcom.Node, depth int) *refNode
	conv = func(n gedcom.Node, depth int) *refNode {
		r := &refNode{tag: n.Tag().Tag(), value: n.Value(), pointer: n.Pointer(), kind: fmt.Sprintf("%T", n)}
		if depth > 400 {
			return r
		}
		for _, c := range n.Nodes() {
			r.children = append(r.children, conv(c, depth+1))
		}
		return r
	}
	var out []*refNode
	for _, n := range doc.Nodes() {
		out = append(out, conv(n, 0))
	}
	return out
}

func firstDiff(a, b string) string {
	la, lb := strings.Split(a, "\n"), strings.Split(b, "\n")
	for i := 0; i < len(la) || i < len(lb); i++ {
		x, y := "<none>", "<none>"
		if i < len(la) {
			x = la[i]
		}
		if i < len(lb) {
			y = lb[i]
		}
		if x != y {
			return fmt.Sprintf("first difference at node %d:\n  got:      %s\n  expected: %s", i+1, x, y)
		}
	}
	return ""
}

// ---------------------------------------------------------------------------
// decoding with a plan

type decodeOutcome struct {
	doc      *gedcom.Document
	err      error
	panicVal string
	over     bool
}

func decodeWith(data []byte, plan ReadPlan, ml, ii bool, st *streamStats) (out decodeOutcome) {
	r := newSimReader(data, plan, st)
	defer func() {
		if p := recover(); p != nil {
			if _, brake := p.(readBudgetPanic); !brake {
				out.panicVal = fmt.Sprint(p)
			}
			out.doc, out.err = nil, nil
		}
		out.over = r.over
	}()
	dec := gedcom.NewDecoder(r)
	dec.AllowMultiLine = ml
	dec.AllowInvalidIndents = ii
	out.doc, out.err = dec.Decode()
	return
}

func wholePlan() ReadPlan { return ReadPlan{ErrAt: -1, TruncAt: -1, StallAt: -1} }

func genReadPlans(r *rand.Rand, n int, count int) []ReadPlan {
	plans := []ReadPlan{wholePlan()}
	p := wholePlan()
	p.Chunks = []int{1}
	plans = append(plans, p)
	for len(plans) < count {
		p := wholePlan()
		k := 1 + r.IntN(5)
		for i := 0; i < k; i++ {
			p.Chunks = append(p.Chunks, pick(r, []int{0, 1, 1, 2, 3, 4, 5, 7, 16, 64, 4096, 5000}))
		}
		allZero := true
		for _, c := range p.Chunks {
			if c != 0 {
				allZero = false
			}
		}
		if allZero {
			p.Chunks[0] = 1
		}
		p.EOFWithData = r.IntN(3) == 0
		plans = append(plans, p)
	}
	return plans
}

// ---------------------------------------------------------------------------
// C01: round trip

var specialTags = []string{"BAPM", "BIRT", "BURI", "DATE", "DEAT", "EVEN", "_FID", "_FSFTID", "FORM", "LATI", "LONG",
	"MAP", "NAME", "NICK", "NOTE", "FONE", "PLAC", "RESI", "ROMN", "SEX", "SOUR", "TYPE", "_UID"}
var plainTags = []string{"HEAD", "CHAR", "TRLR", "OCCU", "GIVN", "SURN", "CONT", "CONC", "TITL", "AUTH", "FAMS", "FAMC",
	"MARR", "OBJE", "FILE", "_CUSTOM", "_x", "ZZZ", "note", "Abc_1", "123", "0", "1", "9NAME", "_"}
var valuePool = []string{"", "", "x", "John /Smith/", "@I1@", "@X@ trailing", "1 NAME nested", "0", "12 Jan 2001", "M", "a  b",
	"@", "@@", "é ü", "value with @ inside", "100% sure", "%d %s %v", "%", "5%!x", "NAME", "1", "<tag> & \"q\"", "EE13561DDB204985BFFDEEBF82A5226C", "LZDP-V9V",
	// not UTF-8: Latin-1 / ANSEL data, a cut-off sequence (GEDCOM 5.5 files are ANSEL by default)
	"caf\xe9", "\xff\xfe", "cut off \xc3", "M\xfcller /Stra\xdfe/"}
var pointerPool = []string{"", "", "", "I1", "F1", "S1", "x y", "../p", "1", "NAME", "é", "\xe9"}

func genSpec(r *rand.Rand, depth, maxDepth int, budget *int) NodeSpec {
	s := NodeSpec{}
	if r.IntN(2) == 0 {
		s.Tag = pick(r, specialTags)
	} else {
		s.Tag = pick(r, plainTags)
	}
	s.Value = pick(r, valuePool)
	s.Pointer = pick(r, pointerPool)
	if r.IntN(150) == 0 {
		// a long line: around the sizes at which buffers of 256 bytes, 4 KB
		// and 64 KB (bufio.Scanner's token limit) end, and well past them
		unit := pick(r, []string{"x", "ab", "é", "long value ", "@"})
		total := pick(r, []int{250, 255, 256, 257, 4090, 4096, 4100, 65520, 65529, 65536, 65540, 70000, 200000})
		if r.IntN(12) == 0 {
			total = 1 << 20
		}
		s.Value, s.Rep = unit, total/len(unit)+r.IntN(3)
		if strings.HasSuffix(unit, " ") {
			s.Value = "long value."
		}
	}
	if s.Tag == "SEX" {
		// SexNode has no children constructor argument
	}
	*budget--
	if depth < maxDepth && *budget > 0 {
		nc := r.IntN(3)
		if maxDepth > 12 {
			nc = 1 // deep chains
		}
		for i := 0; i < nc && *budget > 0; i++ {
			if s.Tag == "SEX" {
				break
			}
			c := genSpec(r, depth+1, maxDepth, budget)
			s.Children = append(s.Children, c)
			if r.IntN(6) == 0 && *budget > 0 {
				// duplicate sibling (of the line itself: copying a whole
				// subtree at every level of a deep chain doubled the document
				// sixteen times over in the thorough tier)
				d := c
				if len(d.Children) > 1 || (len(d.Children) == 1 && len(d.Children[0].Children) > 0) {
					d.Children = nil
				}
				s.Children = append(s.Children, d)
				*budget--
			}
		}
	}
	return s
}

func genRoundTripCase(prop, tier string, r *rand.Rand) *Case {
	cfg := &StreamCfg{Mode: "roundtrip", HasBOM: r.IntN(3) == 0}
	budget := 6 + r.IntN(40)
	if tier == "thorough" {
		budget = 6 + r.IntN(120)
	}
	nroots := r.IntN(5)
	for i := 0; i < nroots && budget > 0; i++ {
		maxDepth := pick(r, []int{0, 1, 2, 3, 3, 5, 9, 10, 11, 25, 99})
		var s NodeSpec
		switch r.IntN(5) {
		case 0: // individual record
			s = NodeSpec{Tag: "INDI", Pointer: fmt.Sprintf("I%d", i+1)}
			for k := r.IntN(4); k > 0; k-- {
				s.Children = append(s.Children, genSpec(r, 1, maxDepth, &budget))
			}
		case 1: // family record with role nodes inside
			s = NodeSpec{Tag: "FAM", Pointer: fmt.Sprintf("F%d", i+1)}
			for k := r.IntN(4); k > 0; k-- {
				switch r.IntN(3) {
				case 0:
					s.Children = append(s.Children, NodeSpec{Tag: pick(r, []string{"HUSB", "WIFE"}), Value: "@" + pick(r, []string{"I1", "I2", "X9"}) + "@"})
				default:
					s.Children = append(s.Children, genSpec(r, 1, maxDepth, &budget))
				}
			}
		default:
			s = genSpec(r, 0, maxDepth, &budget)
		}
		if s.Tag != "FAM" && s.Tag != "SEX" && r.IntN(4) == 0 {
			role := NodeSpec{Tag: pick(r, []string{"ROLE:husb", "ROLE:wife"})}
			if len(s.Children) > 0 && s.Children[0].Tag != "SEX" && r.IntN(2) == 0 {
				s.Children[0].Children = append(s.Children[0].Children, role)
			} else {
				s.Children = append(s.Children, role)
			}
		}
		cfg.Forest = append(cfg.Forest, s)
	}
	if r.IntN(4) == 0 {
		// the document is written once, changed, and written again
		for k := 1 + r.IntN(3); k > 0; k-- {
			i := itoa(r.IntN(3))
			switch r.IntN(6) {
			case 0, 1:
				// set, write, set again: the second one replaces a value in place
				cfg.Edits = append(cfg.Edits, "setsex "+i+" "+pick(r, []string{"M", "F"}), "render", "setsex "+i+" "+pick(r, []string{"M", "F", "U", ""}))
			case 2:
				cfg.Edits = append(cfg.Edits, "addname "+i+" "+pick(r, []string{"Ann /Lee/", "x", "//"}))
			case 3:
				cfg.Edits = append(cfg.Edits, "sethusb "+i+" "+pick(r, []string{"I1", "I2", "X9"}))
			case 4:
				cfg.Edits = append(cfg.Edits, "setwife "+i+" "+pick(r, []string{"I1", "I2", "X9"}))
			default:
				cfg.Edits = append(cfg.Edits, "addbirth "+i+" "+pick(r, []string{"1 Jan 1900", "Abt. 1850"}))
			}
		}
	}
	if r.IntN(4) == 0 {
		// what this process was given to decode before: streams that were
		// refused, each at a line that is fine where the document has it
		for _, role := range []string{"HUSB", "WIFE", "CHIL"} {
			for _, who := range []string{"I1", "I2", "X9"} {
				cfg.Prior = append(cfg.Prior, "0 HEAD\n1 "+role+" @"+who+"@\n")
			}
		}
	}
	cfg.Plans = genReadPlans(r, 0, 4)
	cfg.AllWriteFaults = true
	if r.IntN(3) == 0 {
		cfg.PipeCap = pick(r, []int{1, 1, 2, 4, 64, 4096})
		cfg.PipeChunk = pick(r, []int{0, 1, 2, 3, 7, 100})
		cfg.PipePeers = pick(r, []int{0, 1, 1, 2})
	}
	c := &Case{Prop: prop, Engine: "stream", Stream: cfg}
	c.Sim = GenSim(r)
	return c
}

// buildDoc builds a document from the spec through the public API only.
func buildDoc(cfg *StreamCfg) (doc *gedcom.Document, err error) {
	defer func() {
		if p := recover(); p != nil {
			err = fmt.Errorf("cannot be built through the public API: %v", p)
		}
	}()
	doc = gedcom.NewDocument()
	doc.HasBOM = cfg.HasBOM
	var family *gedcom.FamilyNode
	var build func(s NodeSpec) gedcom.Node
	build = func(s NodeSpec) gedcom.Node {
		if s.Tag == "ROLE:husb" || s.Tag == "ROLE:wife" {
			// the role node of the most recent family, added a second time
			// under a later record (a family-role node after its family)
			if family != nil {
				if s.Tag == "ROLE:husb" && family.Husband() != nil {
					return family.Husband()
				}
				if s.Tag == "ROLE:wife" && family.Wife() != nil {
					return family.Wife()
				}
			}
			return gedcom.NewNode(gedcom.TagNote, "no role node to attach", "")
		}
		var children []gedcom.Node
		for _, c := range s.Children {
			children = append(children, build(c))
		}
		return gedcom.NewNode(gedcom.TagFromString(s.Tag), s.value(), s.Pointer, children...)
	}
	for _, s := range cfg.Forest {
		switch s.Tag {
		case "INDI":
			var children []gedcom.Node
			for _, c := range s.Children {
				children = append(children, build(c))
			}
			doc.AddIndividual(s.Pointer, children...)
		case "FAM":
			family = doc.AddFamily(s.Pointer)
			for _, c := range s.Children {
				switch c.Tag {
				case "HUSB":
					family.SetHusbandPointer(strings.Trim(c.Value, "@"))
				case "WIFE":
					family.SetWifePointer(strings.Trim(c.Value, "@"))
				default:
					family.AddNode(build(c))
				}
			}
		default:
			doc.AddNode(build(s))
		}
	}
	return doc, nil
}

// applyStreamEdits changes a built document through public mutators; an edit
// whose target does not exist is skipped.
func applyStreamEdits(doc *gedcom.Document, edits []string) (panicVal string) {
	defer func() {
		if p := recover(); p != nil {
			panicVal = fmt.Sprint(p)
		}
	}()
	for _, e := range edits {
		f := strings.SplitN(e, " ", 3)
		if e == "render" {
			f = []string{"render", "0"}
		}
		if len(f) < 2 {
			continue
		}
		idx := 0
		fmt.Sscan(f[1], &idx)
		arg := ""
		if len(f) == 3 {
			arg = f[2]
		}
		inds, fams := doc.Individuals(), doc.Families()
		switch f[0] {
		case "render":
			_ = doc.String()
		case "setsex":
			if len(inds) > 0 {
				inds[idx%len(inds)].SetSex(arg)
			}
		case "addname":
			if len(inds) > 0 {
				inds[idx%len(inds)].AddName(arg)
			}
		case "addbirth":
			if len(inds) > 0 {
				inds[idx%len(inds)].AddBirthDate(arg)
			}
		case "sethusb":
			if len(fams) > 0 {
				fams[idx%len(fams)].SetHusbandPointer(arg)
			}
		case "setwife":
			if len(fams) > 0 {
				fams[idx%len(fams)].SetWifePointer(arg)
			}
		}
	}
	return ""
}

func runRoundTrip(t *testing.T, c *Case, cr *CaseResult) *CaseResult {
	cfg := c.Stream
	prop := c.Prop
	doc, err := buildDoc(cfg)
	if err != nil {
		cr.observe(err.Error())
		return cr
	}
	cr.Valid = true
	st := &streamStats{}
	defer func() { foldStreamStats(cr, st) }()
	for _, prior := range cfg.Prior {
		decodeWith([]byte(prior), wholePlan(), false, false, st)
		cr.count("history.prior_decode", 1)
	}
	if len(cfg.Edits) > 0 {
		// written once (every line rendered), then edited
		_ = doc.String()
		if perr := applyStreamEdits(doc, cfg.Edits); perr != "" {
			cr.observe("edit cannot be made through the public API: " + clip(perr, 80))
			cr.Valid = false
			return cr
		}
		cr.count("history.edit_after_first_write", int64(len(cfg.Edits)))
	}
	want := dumpForest(fromDoc(doc), true)

	// fault-free encode
	w := &SimWriter{}
	if err := gedcom.NewEncoder(w, doc).Encode(); err != nil {
		cr.violate(prop+"/roundtrip", "encode failed without any fault", err.Error())
		return cr
	}
	text := append([]byte(nil), w.accepted...)
	total := w.calls
	cr.Probes["nodes"] += int64(strings.Count(want, "\n"))
	if strings.Contains(string(text), "\n10 ") || strings.HasPrefix(string(text), "10 ") {
		cr.Probes["level>=10"]++
	}

	check := func(what string, out decodeOutcome, wantBOM bool) {
		cr.Runs++
		switch {
		case out.panicVal != "":
			cr.violate(prop+"/roundtrip", "decoder panics on encoder output", what+": "+out.panicVal)
		case out.over:
			cr.violate(prop+"/roundtrip", "decoder does not terminate on encoder output", what)
		case out.err != nil:
			cr.violate(prop+"/roundtrip", "decoder rejects encoder output", fmt.Sprintf("%s: %v\ntext:\n%s", what, out.err, clip(string(text), 600)))
		default:
			got := dumpForest(fromDoc(out.doc), true)
			if got != want {
				cr.violate(prop+"/roundtrip", "decoded document differs", what+": "+firstDiff(got, want))
			}
			if out.doc.HasBOM != wantBOM {
				cr.violate(prop+"/roundtrip", "BOM flag differs", fmt.Sprintf("%s: HasBOM=%v, want %v", what, out.doc.HasBOM, wantBOM))
			}
		}
	}
	for i, p := range cfg.Plans {
		if len(text) > 100000 && i >= 2 {
			break
		}
		out := decodeWith(text, p, false, false, st)
		check(fmt.Sprintf("delivery plan %d %+v", i, p), out, cfg.HasBOM)
		if len(p.Chunks) > 0 {
			cr.NonTrivial = true
			cr.Distinct = append(cr.Distinct, fmt.Sprintf("%x|%v", hashBytes(text), p))
		}
	}

	// the reader fails once in the middle of the encoder's output and then
	// goes on (an interrupted call): an error, never a document - least of all
	// a different one
	if len(text) <= 600 {
		for k := 0; k <= len(text); k++ {
			p := wholePlan()
			p.ErrAt, p.ErrOnce, p.ErrWithData = k, k%2 == 0, k%4 >= 2
			out := decodeWith(text, p, false, false, st)
			cr.Runs++
			if out.panicVal == "" && out.err == nil {
				got := "the same document"
				if out.doc != nil && dumpForest(fromDoc(out.doc), true) != want {
					got = "a different document"
				}
				if p.ErrOnce && got == "the same document" {
					// the reader recovered and every byte arrived: the complete
					// document without an error is a fair answer (the optional
					// byte order mark is peeked at with the error ignored)
					cr.Probes["one_time_read_error_survived"]++
					continue
				}
				cr.violate(prop+"/read-fault", "read error swallowed: "+got+" is returned",
					fmt.Sprintf("the reader failed (once: %v) at offset %d of %d of the encoder's output and Decode returned a nil error", p.ErrOnce, k, len(text)))
				break
			}
		}
		cr.NonTrivial = true
	}

	// writer faults at every call k
	faults := cfg.WriteFaults
	if cfg.AllWriteFaults {
		faults = nil
		for k := 1; k <= total; k++ {
			// every k for documents up to 48 writes; beyond that the first
			// 16, the last 8 and every fifth (long chains repeat one shape)
			if total > 48 && k > 16 && k <= total-8 && k%5 != 0 {
				continue
			}
			// a document with a very long line is written and read back a
			// few times only (each pass moves hundreds of kilobytes)
			if len(text) > 100000 && k > 3 && k < total-1 {
				continue
			}
			faults = append(faults, WriteFault{K: k}, WriteFault{K: k, Sticky: true})
			if k%3 == 1 {
				faults = append(faults, WriteFault{K: k, Short: true})
			}
		}
	}
	for _, f := range faults {
		fw := &SimWriter{faults: []WriteFault{f}}
		enc := gedcom.NewEncoder(fw, doc)
		var encErr error
		var pv string
		func() {
			defer func() {
				if p := recover(); p != nil {
					pv = fmt.Sprint(p)
				}
			}()
			encErr = enc.Encode()
		}()
		cr.Runs++
		if fw.fired == 0 {
			continue
		}
		cr.count("stream.write_error", 1)
		if f.Short {
			cr.count("stream.short_write", 1)
		}
		cr.NonTrivial = true
		cr.Distinct = append(cr.Distinct, fmt.Sprintf("%x|w%d%v%v", hashBytes(text), f.K, f.Sticky, f.Short))
		if pv != "" {
			cr.violate(prop+"/write-fault", "encoder panics on a failing writer", fmt.Sprintf("fault %+v: %s", f, pv))
			continue
		}
		if encErr != nil {
			// a failed write reported as failure: fine. The retry on the
			// same Encoder, once the writer works again, must write the
			// document (or fail), whatever the failed attempt left behind.
			if !f.Sticky && pv == "" {
				before := len(fw.accepted)
				var retryErr error
				var rpv string
				func() {
					defer func() {
						if p := recover(); p != nil {
							rpv = fmt.Sprint(p)
						}
					}()
					retryErr = enc.Encode()
				}()
				cr.Runs++
				cr.count("history.retry_on_same_encoder", 1)
				if rpv != "" {
					cr.violate(prop+"/write-fault", "encoder panics when Encode is called again after a failed write", fmt.Sprintf("fault %+v: %s", f, rpv))
				} else if retryErr == nil {
					out := decodeWith(fw.accepted[before:], wholePlan(), false, false, st)
					bad := out.err != nil || out.panicVal != "" || out.doc == nil
					if !bad {
						bad = dumpForest(fromDoc(out.doc), true) != want || out.doc.HasBOM != cfg.HasBOM
					}
					if bad {
						cr.violate(prop+"/write-fault", "Encode called again after a failed write reports success but does not write the document",
							fmt.Sprintf("Write call %d of %d failed (%+v); the second Encode on the same Encoder returned nil and wrote:\n%s", f.K, total, f, clip(string(fw.accepted[before:]), 300)))
					}
				}
			}
			continue
		}
		// reported success: what the writer accepted must still be the document
		out := decodeWith(fw.accepted, wholePlan(), false, false, st)
		bad := out.err != nil || out.panicVal != "" || out.doc == nil
		if !bad {
			bad = dumpForest(fromDoc(out.doc), true) != want || out.doc.HasBOM != cfg.HasBOM
		}
		if bad {
			which := "a line"
			if f.K == 1 && cfg.HasBOM {
				which = "the byte order mark"
			}
			cr.violate(prop+"/write-fault", "failed write of "+which+" reported as success",
				fmt.Sprintf("Write call %d of %d failed (%+v) but Encode returned nil; the accepted text no longer is the document", f.K, total, f))
		}
	}

	// encoder -> bounded pipe -> decoder, both ends scheduled; with peers,
	// several such chains at once, each with its own document and pipe
	if cfg.PipeCap > 0 {
		type chain struct {
			doc    *gedcom.Document
			want   string
			bom    bool
			out    decodeOutcome
			encErr error
		}
		chains := []*chain{{doc: doc, want: want, bom: cfg.HasBOM}}
		for i := 0; i < cfg.PipePeers; i++ {
			var peer *gedcom.Document
			var perr error
			if i == 0 {
				peer, perr = decode(pipeNeighbour)
			} else {
				// the same text again, as a document of its own
				peer, perr = gedcom.NewDecoder(bytes.NewReader(text)).Decode()
			}
			if perr != nil {
				break
			}
			chains = append(chains, &chain{doc: peer, want: dumpForest(fromDoc(peer), true), bom: peer.HasBOM})
		}
		res, _ := runSim(t, cr, prop, c.Sim, func() {
			// every chunk is a handful of scheduler decisions: a document with
			// a very long line goes through in pieces of at least 4 KB so that
			// the run stays inside the step budget
			chunk := cfg.PipeChunk
			if len(text) > 50000 && chunk < 4096 {
				chunk = 4096
			}
			done := make(chan struct{}, len(chains))
			for _, ch := range chains {
				ch := ch
				p := &simPipe{ch: make(chan []byte, cfg.PipeCap), chunk: chunk}
				simrt.Go("harness:encoder", func() {
					ch.encErr = gedcom.NewEncoder(p, ch.doc).Encode()
					p.Close()
				})
				simrt.Go("harness:decoder", func() {
					defer func() {
						if pv := recover(); pv != nil {
							ch.out.panicVal = fmt.Sprint(pv)
						}
						simrt.Yield("harness:done")
						done <- struct{}{}
					}()
					ch.out.doc, ch.out.err = gedcom.NewDecoder(p).Decode()
				})
			}
			for range chains {
				simrt.Yield("harness:wait")
				<-done
				simrt.Yield("harness:wait+")
			}
		})
		cr.count("stream.pipe", 1)
		cr.count("stream.pipe_peers", int64(len(chains)-1))
		if res.Outcome != "completed" {
			cr.violate(prop+"/roundtrip", "encode|decode through a pipe: "+res.Outcome, fmt.Sprintf("%+v", res.Leaked))
		} else {
			for i, ch := range chains {
				if ch.encErr != nil {
					cr.violate(prop+"/roundtrip", "encode failed without any fault", ch.encErr.Error())
				}
				what := fmt.Sprintf("pipe cap=%d chunk=%d", cfg.PipeCap, cfg.PipeChunk)
				if i > 0 {
					// a neighbour's document, judged like the case's own
					what += fmt.Sprintf(" (document of concurrent chain %d of %d)", i+1, len(chains))
					saved := want
					want = ch.want
					check(what, ch.out, ch.bom)
					want = saved
					continue
				}
				if len(chains) > 1 {
					what += fmt.Sprintf(" (with %d concurrent chains of other documents)", len(chains)-1)
				}
				check(what, ch.out, ch.bom)
			}
		}
	}
	return cr
}

// pipeNeighbour is the document of the second chain of a concurrent pipe run.
const pipeNeighbour = "0 HEAD\n1 CHAR UTF-8\n0 @N1@ INDI\n1 NAME Neighbour /Of Another Document/\n1 SEX F\n1 BIRT\n2 DATE 1 JAN 1900\n2 PLAC Somewhere, Far Away\n0 @N2@ INDI\n1 NAME Second /Neighbour/\n1 NOTE a line that is rather longer than the lines of the generated documents usually are\n0 @NF1@ FAM\n1 HUSB @N2@\n1 WIFE @N1@\n0 TRLR\n"

func clip(s string, n int) string {
	if len(s) > n {
		return s[:n] + "…"
	}
	return s
}

func hashBytes(b []byte) uint64 {
	h := uint64(14695981039346656037)
	for _, c := range b {
		h = (h ^ uint64(c)) * 1099511628211
	}
	return h
}

func foldStreamStats(cr *CaseResult, st *streamStats) {
	cr.count("stream.reads", int64(st.reads))
	cr.count("stream.short_read", int64(st.shortReads))
	cr.count("stream.zero_read", int64(st.zeroReads))
	cr.count("stream.read_error", int64(st.readErrors))
	cr.count("stream.truncate", int64(st.truncations))
	cr.count("stream.eof_with_data", int64(st.eofWithData))
}

// ---------------------------------------------------------------------------
// C02: reference line grammar

// The tag is the longest run of letters, digits and '_'; what follows it is
// the value, with or without a separating space ("0 NOTE@x" is a NOTE with
// the value "@x": the statement is silent about a missing separator, the
// decoder's documented pattern allows it, and the normal form is stable).
// Exactly one space follows the xref.
var refLineRe = regexp.MustCompile(`^([0-9]{1,2}) +(?:@([^@]+)@ )?([A-Za-z0-9_]+) ?(.*)$`)

// refParse is the independent model of the documented line grammar. It works
// on the complete byte string and knows nothing about delivery.
func refParse(data []byte, ml, ii bool) (roots []*refNode, hasBOM bool, ok bool) {
	if bytes.HasPrefix(data, []byte{0xef, 0xbb, 0xbf}) {
		hasBOM = true
		data = data[3:]
	}
	var open []*refNode // open[i] = last node at level i
	var prev *refNode
	trim := func() {
		if prev != nil {
			prev.value = strings.TrimSpace(prev.value)
		}
	}
	for _, line := range splitLines(data) {
		if line == "" {
			if ml && prev != nil {
				prev.value += "\n"
			}
			continue
		}
		m := refLineRe.FindStringSubmatch(line)
		if m == nil {
			// a record line carries no value, so nothing can continue it
			if ml && prev != nil && prev.tag != "INDI" && prev.tag != "FAM" {
				prev.value += "\n" + line
				continue
			}
			return nil, hasBOM, false
		}
		level := 0
		for _, d := range m[1] {
			level = level*10 + int(d-'0')
		}
		n := &refNode{pointer: m[2], tag: m[3], value: m[4]}
		if n.tag == "INDI" || n.tag == "FAM" {
			n.value = "" // record lines carry no value
		}
		if level == 0 {
			trim()
			roots = append(roots, n)
			open = []*refNode{n}
			prev = n
			continue
		}
		if level > len(open) {
			if !ii || len(open) == 0 {
				return nil, hasBOM, false
			}
			level = len(open) // hangs one level below the deepest open node
		}
		trim()
		parent := open[level-1]
		parent.children = append(parent.children, n)
		open = append(open[:level], n)
		prev = n
	}
	trim()
	return roots, hasBOM, true
}

func splitLines(data []byte) []string {
	var out []string
	start := 0
	for i, c := range data {
		if c == '\n' || c == '\r' {
			out = append(out, string(data[start:i]))
			start = i + 1
		}
	}
	out = append(out, string(data[start:]))
	return out
}

var c02Tags = []string{"HEAD", "NAME", "BIRT", "DATE", "PLAC", "NOTE", "SOUR", "SEX", "DEAT", "OCCU", "_UID", "x", "CONT", "CONC", "CONT", "A1", "TITL", "INDI", "FAM", "RESI", "TYPE"}

func genStructureCase(prop, tier string, r *rand.Rand) *Case {
	cfg := &StreamCfg{Mode: "structure", AllowMultiLine: r.IntN(2) == 0, AllowInvalidIndents: r.IntN(2) == 0}
	var b []byte
	if r.IntN(4) == 0 {
		b = append(b, 0xef, 0xbb, 0xbf)
	}
	nlines := r.IntN(30)
	if tier == "thorough" {
		nlines = r.IntN(80)
	}
	level := 0
	maxLevel := 9
	if r.IntN(5) == 0 {
		maxLevel = 14 // two-digit levels
		nlines += 12
	}
	famSeen := false
	eol := func() string { return pick(r, []string{"\n", "\n", "\r\n", "\r", "\n\n", "\r\n\r\n"}) }
	for i := 0; i < nlines; i++ {
		// level walk: descend by one, stay, dedent by any amount, new root
		switch {
		case i == 0:
			level = 0
		default:
			switch r.IntN(6) {
			case 0, 1:
				if level < maxLevel {
					level++
				}
			case 2:
				level = r.IntN(level + 1)
			case 3:
				level = 0
			case 4:
				if cfg.AllowInvalidIndents && level < maxLevel-2 && r.IntN(3) == 0 {
					level += 2 // over-deep line
				}
			}
		}
		tag := pick(r, c02Tags)
		if level > 0 && (tag == "INDI" || tag == "FAM") && r.IntN(3) > 0 {
			tag = "NOTE"
		}
		if famSeen && r.IntN(10) == 0 && level > 0 {
			tag = pick(r, []string{"HUSB", "WIFE", "CHIL"})
		}
		if tag == "FAM" {
			famSeen = true
		}
		lv := fmt.Sprintf("%d", level)
		if level < 10 && r.IntN(12) == 0 {
			lv = "0" + lv // a level written with two digits (08 is eight, not octal)
		}
		line := lv + strings.Repeat(" ", 1+r.IntN(2)*r.IntN(3))
		if r.IntN(4) == 0 || ((tag == "INDI" || tag == "FAM") && level == 0) {
			line += "@" + pick(r, []string{"I1", "F2", "x y", "é", "1"}) + "@ "
			if r.IntN(150) == 0 {
				// a run of spaces after the xref: not a line of the grammar
				line += strings.Repeat(" ", 1+r.IntN(2))
			}
		}
		line += tag
		switch r.IntN(6) {
		case 0:
		case 1:
			line += " "
		default:
			v := pick(r, []string{"value", "a @ b", "@I1@", "12", "100% sure", "%s %d", "  padded  ", "\tTabbed\t", "é\xff\xfe", "1 NAME x", "John /Smith/", "@X@ Y"})
			line += " " + v
		}
		b = append(b, line...)
		b = append(b, eol()...)
		if !cfg.AllowMultiLine && r.IntN(60) == 0 {
			// a line of blanks only is not an empty line: not a line of the grammar
			b = append(b, pick(r, []string{"  ", "\t", " "})...)
			b = append(b, pick(r, []string{"\n", "\r\n"})...)
		}
		// a continuation line (multi-line mode): never shaped like a valid
		// line. After a record line (INDI/FAM lines carry no value) it makes
		// the stream unacceptable; that is rare enough to keep most streams.
		if cfg.AllowMultiLine && r.IntN(6) == 0 && (tag != "INDI" && tag != "FAM" || r.IntN(8) == 0) {
			cont := pick(r, []string{"continued text", "  indented words", "more: 1 2 3", "@ not a line", "x", "   ", "\t", " "})
			if strings.TrimSpace(cont) == "" && r.IntN(2) == 0 {
				// a line of blanks only in the middle of a continued value
				cont += pick(r, []string{"\n", "\r\n"}) + "and more"
			}
			b = append(b, cont...)
			b = append(b, pick(r, []string{"\n", "\r\n"})...)
		}
	}
	if r.IntN(3) == 0 && len(b) > 0 && (b[len(b)-1] == '\n' || b[len(b)-1] == '\r') {
		// last line without a line end
		for len(b) > 0 && (b[len(b)-1] == '\n' || b[len(b)-1] == '\r') {
			b = b[:len(b)-1]
		}
	}
	if r.IntN(5) == 0 && len(b) > 0 {
		// byte-mutated real-looking file: mostly rejected, then only the
		// delivery independence of the verdict is judged
		for k := 1 + r.IntN(3); k > 0 && len(b) > 0; k-- {
			i := r.IntN(len(b))
			switch r.IntN(3) {
			case 0:
				b[i] = pick(r, []byte{'\n', '\r', ' ', '0', '1', '@', 'x', 0xff})
			case 1:
				b = append(b[:i], b[i+1:]...)
			default:
				b = append(b[:i], append([]byte{pick(r, []byte{'\n', ' ', '2', '@'})}, b[i:]...)...)
			}
		}
		cfg.Mutated = true
	}
	cfg.Segments = bytesToSegs(b)
	cfg.Plans = genReadPlans(r, len(b), 5)
	// chunk boundaries inside the BOM, a CR-LF pair, a level number
	for _, k := range []int{1, 2, 3} {
		p := wholePlan()
		p.Chunks = []int{k, 4096}
		cfg.Plans = append(cfg.Plans, p)
	}
	cfg.AllReadErrors = len(b) <= 400
	c := &Case{Prop: prop, Engine: "stream", Stream: cfg}
	return c
}

func runStructure(t *testing.T, c *Case, cr *CaseResult) *CaseResult {
	cfg := c.Stream
	prop := c.Prop
	data := segsToBytes(cfg.Segments)
	cr.Valid = true
	st := &streamStats{}
	defer func() { foldStreamStats(cr, st) }()
	ml, ii := cfg.AllowMultiLine, cfg.AllowInvalidIndents
	cr.Probes[fmt.Sprintf("multiline=%v,invalid_indents=%v", ml, ii)]++

	for _, prior := range cfg.Prior {
		decodeWith([]byte(prior), wholePlan(), ml, ii, st)
		cr.count("history.prior_decode", 1)
	}
	ref, refBOM, refOK := refParse(data, ml, ii)
	base := decodeWith(data, wholePlan(), ml, ii, st)
	cr.Runs++
	if base.panicVal != "" {
		cr.Masked = "crash"
		cr.observe("decoder panics (C03's subject): " + clip(base.panicVal, 80))
		return cr
	}
	verdict := func(o decodeOutcome) string {
		switch {
		case o.panicVal != "":
			return "panic: " + o.panicVal
		case o.err != nil:
			return "error: " + o.err.Error()
		}
		return "ok\n" + dumpForest(fromDoc(o.doc), true) + fmt.Sprint(o.doc.HasBOM)
	}
	baseVerdict := verdict(base)
	if base.err == nil {
		cr.Probes["accepted"]++
		if cfg.Mutated {
			cr.Probes["mutated_accepted"]++
		}
		if !refOK {
			cr.violate(prop+"/structure", "decoder accepts a stream that the line grammar does not derive", fmt.Sprintf("input: %q\ngot:\n%s", clip(string(data), 500), clip(dumpForest(fromDoc(base.doc), false), 600)))
		} else {
			got := dumpForest(fromDoc(base.doc), false)
			want := dumpForest(ref, false)
			if got != want {
				cr.violate(prop+"/structure", "tree differs from the line grammar", firstDiff(got, want)+"\ninput: "+fmt.Sprintf("%q", clip(string(data), 500)))
			}
			if base.doc.HasBOM != refBOM {
				cr.violate(prop+"/structure", "BOM flag differs from the stream", fmt.Sprintf("HasBOM=%v", base.doc.HasBOM))
			}
			cr.Probes["compared_with_reference"]++
		}
		// normal form: decode(encode(doc)) is the same tree and re-encodes to
		// the same bytes
		s1 := base.doc.String()
		d2 := decodeWith([]byte(s1), wholePlan(), ml, ii, st)
		cr.Runs++
		if d2.err != nil || d2.panicVal != "" {
			// whether encoder output is always accepted is C01's subject; here
			// only note it
			cr.observe("re-encoded text is not accepted again: " + clip(fmt.Sprint(d2.err, d2.panicVal), 100))
		} else {
			if dumpForest(fromDoc(d2.doc), true) != dumpForest(fromDoc(base.doc), true) {
				cr.violate(prop+"/normal-form", "re-decoded tree differs", firstDiff(dumpForest(fromDoc(d2.doc), true), dumpForest(fromDoc(base.doc), true)))
			}
			if s2 := d2.doc.String(); s2 != s1 {
				cr.violate(prop+"/normal-form", "re-encoding is not a fix-point", fmt.Sprintf("first: %q\nsecond: %q", clip(s1, 300), clip(s2, 300)))
			}
		}
	} else {
		cr.Probes["rejected"]++
	}

	// delivery independence
	for i, p := range cfg.Plans {
		o := decodeWith(data, p, ml, ii, st)
		cr.Runs++
		if len(p.Chunks) > 0 {
			cr.NonTrivial = true
			cr.Distinct = append(cr.Distinct, fmt.Sprintf("%x|%v", hashBytes(data), p))
		}
		if o.over {
			cr.violate(prop+"/delivery", "decoder does not terminate", fmt.Sprintf("plan %d %+v", i, p))
			continue
		}
		if v := verdict(o); v != baseVerdict {
			cr.violate(prop+"/delivery", "result depends on how the reader delivers the bytes",
				fmt.Sprintf("plan %d %+v:\n%s\nwhole stream at once:\n%s", i, p, clip(v, 500), clip(baseVerdict, 500)))
		}
	}

	// a read error is never turned into a silently shorter document
	if cfg.AllReadErrors {
		for k := 0; k <= len(data); k++ {
			for variant, withData := range []bool{false, true, false, true} {
				p := wholePlan()
				p.ErrAt = k
				p.ErrWithData = withData
				// (the last two: the reader fails once and then goes on)
				p.ErrOnce = variant >= 2
				p.Chunks = []int{pick2(k)}
				o := decodeWith(data, p, ml, ii, st)
				cr.Runs++
				cr.NonTrivial = true
				if o.panicVal != "" {
					continue // C03
				}
				if p.ErrOnce {
					cr.count("stream.read_error_once", 1)
				}
				if o.err == nil && p.ErrOnce && verdict(o) == baseVerdict {
					// the reader recovered and the complete document came out
					cr.Probes["one_time_read_error_survived"]++
					continue
				}
				if o.err == nil {
					once := ""
					if p.ErrOnce {
						once = " once"
					}
					cr.violate(prop+"/read-error", "read error swallowed: a document is returned",
						fmt.Sprintf("the reader failed%s at offset %d of %d (with data in the same call: %v) and Decode returned a document and a nil error", once, k, len(data), withData))
				}
				if p.ErrOnce {
					continue
				}
				// history: the retry on a healthy stream gives what the first
				// decode gave, whatever failed in between (judged for a
				// sample of the offsets, and once more after the last one)
				if !withData && (k%7 == 3 || k == len(data)) {
					again := decodeWith(data, wholePlan(), ml, ii, st)
					cr.Runs++
					cr.count("history.decode_after_failed_decode", 1)
					if v := verdict(again); v != baseVerdict {
						cr.violate(prop+"/history", "the result of a decode depends on an earlier, failed decode in the same process",
							fmt.Sprintf("after the reader had failed at offset %d of %d, decoding the healthy stream gave\n%s\ninstead of\n%s", k, len(data), clip(v, 400), clip(baseVerdict, 400)))
						break
					}
				}
			}
		}
		cr.Distinct = append(cr.Distinct, fmt.Sprintf("%x|errs", hashBytes(data)))
	}
	return cr
}

func pick2(k int) int {
	if k%2 == 0 {
		return 3
	}
	return 4096
}

// ---------------------------------------------------------------------------
// C03: totality

func genTotalityCase(prop, tier string, r *rand.Rand) *Case {
	cfg := &StreamCfg{Mode: "totality", AllowMultiLine: r.IntN(2) == 0, AllowInvalidIndents: r.IntN(2) == 0}
	var b []byte
	switch r.IntN(8) {
	case 7: // walks over the levels: records that end deep, lines that skip levels
		n := 3 + r.IntN(10)
		level := 0
		lastOfRecord := 0 // the level the record before this one ended at
		b = append(b, "0 HEAD\n"...)
		for i := 0; i < n; i++ {
			was := level
			switch r.IntN(6) {
			case 0:
				level = 0
			case 1:
				level++
			case 2:
				level += 2
			case 3:
				if level > 0 {
					level--
				}
			case 4:
				if level == 0 {
					// the first line of a record is on the level the record
					// before it ended at (state kept from line to line must
					// not leak across records)
					level = lastOfRecord
				}
			}
			if level == 0 && was != 0 {
				lastOfRecord = was
			}
			if level > 6 {
				level = r.IntN(4)
			}
			b = append(b, fmt.Sprintf("%d %s v%d\n", level, pick(r, []string{"NOTE", "NAME", "GIVN", "BIRT", "DATE", "INDI", "SEX"}), i)...)
		}
	case 6: // a line that ends right at, before or after a buffer boundary
		total := pick(r, []int{200, 250, 254, 255, 256, 257, 258, 260, 510, 512, 514, 4094, 4096, 4098, 65534, 65536, 65538})
		tail := pick(r, []string{"", "é", "Ж", "€", "\U0001F600", "\xff", "é\xc3"})
		var head string
		switch r.IntN(5) {
		case 0:
			head = "not a line at all " // could not parse
		case 1:
			head = "1 HUSB @I1@ " // outside of a family
		case 2:
			head = "3 NOTE " // indent without a parent / too large
		case 3:
			head = "0 HEAD\n5 NOTE "
		default:
			head = "0 NOTE "
		}
		fill := pick(r, []string{"x", "é", "Ж"})
		pre, body := "", head
		if i := strings.LastIndex(head, "\n"); i >= 0 {
			pre, body = head[:i+1], head[i+1:]
		}
		for len(body)+len(fill)+len(tail) <= total {
			body += fill
		}
		for len(body)+len(tail) < total {
			body += "x" // the line is exactly total bytes long
		}
		line := pre + body
		b = append([]byte(line), tail...)
		if r.IntN(2) == 0 {
			b = append(b, pick(r, []string{"\n", "\r\n", "\n1 NOTE after\n"})...)
		}
	case 0: // random bytes
		n := r.IntN(200)
		for i := 0; i < n; i++ {
			b = append(b, byte(r.IntN(256)))
		}
	case 1: // random printable soup with digits and line ends
		n := r.IntN(200)
		alphabet := "0123 @\n\r\tNAMEINDIFAMHUSBx/_é"
		for i := 0; i < n; i++ {
			b = append(b, alphabet[r.IntN(len(alphabet))])
		}
	case 2: // structure-aware adversarial
		// the same lines in their proper places, decoded before
		cfg.Prior = []string{"0 HEAD\n1 CHAR UTF-8\n0 @I1@ INDI\n1 NAME x /y/\n1 NAME x\n0 @I2@ INDI\n0 @F1@ FAM\n1 HUSB @I1@\n1 WIFE @I2@\n1 CHIL @I1@\n1 MARR\n2 HUSB\n0 TRLR\n"}
		lines := []string{"0 HEAD", "1 CHAR UTF-8", "0 @I1@ INDI", "1 NAME x /y/", "0 @F1@ FAM", "1 HUSB @I1@", "1 WIFE @I2@", "1 CHIL @I1@",
			"0 HUSB @I1@", "0 CHIL @I1@", "1 WIFE @I2@", "2 HUSB", "1 NAME x", "3 DATE 1 Jan 1900", "9 NOTE deep", "1 INDI", "1 FAM", "2 FAM",
			"0 @I1@ INDI value", "0 TRLR", "", "garbage", "1 husb @I1@", "1 Wife @I2@", "0 chil @I1@", "1 hUSB", "0 @I3@ indi", "0 @F2@ Fam", "1 name x /y/", "1 Sex M", "10 NOTE ten", "1  NAME two spaces", "1 @@ NAME", "1 @a@b@ NAME", "0", "0 ", " 0 HEAD", "-1 NAME", "1 NAME\x00nul"}
		n := r.IntN(14)
		for i := 0; i < n; i++ {
			b = append(b, pick(r, lines)...)
			b = append(b, pick(r, []string{"\n", "\r\n", "\r"})...)
		}
	case 3: // mutated GEDCOM
		g := GenGraph(r, GraphOpts{People: r.IntN(4), DeathProb: 0.5})
		b = []byte(g.Text())
		if r.IntN(2) == 0 {
			cfg.Prior = []string{g.Text()} // the file as it was before it was damaged
		}
		for k := r.IntN(6); k > 0 && len(b) > 0; k-- {
			i := r.IntN(len(b))
			switch r.IntN(4) {
			case 0:
				b[i] = byte(r.IntN(256))
			case 1:
				b = append(b[:i], b[i+1:]...)
			case 2:
				b = append(b[:i], append([]byte{pick(r, []byte{'\n', '0', '1', '@', ' ', 0xef})}, b[i:]...)...)
			default:
				j := r.IntN(len(b))
				b[i], b[j] = b[j], b[i]
			}
		}
	case 4: // a chain down to the deepest levels (and past them)
		if r.IntN(2) == 0 {
			n := pick(r, []int{12, 98, 99, 100, 101, 105})
			b = append(b, "0 HEAD\n"...)
			for l := 1; l <= n; l++ {
				b = append(b, fmt.Sprintf("%d NOTE l%d\n", l, l)...)
			}
			if r.IntN(2) == 0 {
				// over-indented lines stack up one level each with AllowInvalidIndents
				b = []byte("0 HEAD\n")
				for l := 0; l < n; l++ {
					b = append(b, fmt.Sprintf("%d NOTE x\n", 2+l+r.IntN(3))...)
				}
			}
			break
		}
		// first line at a level > 0
		b = []byte(fmt.Sprintf("%d NAME x\n", 1+r.IntN(9)))
		if r.IntN(2) == 0 {
			b = append(b, "0 HEAD\n2 NOTE y\n"...)
		}
	case 5: // a long run of blank lines (or one very long line, below)
		if r.IntN(3) == 0 {
			n := pick(r, []int{1000, 50000, 700000})
			if tier == "thorough" && r.IntN(3) == 0 {
				n = 2500000
			}
			head := "0 HEAD\n"
			if r.IntN(2) == 0 {
				// the file is refused (or the documented panic is raised) at
				// its second line, with a lot of input still to come
				head += pick(r, []string{"3 NOTE too deep\n", "garbage\n", "1 HUSB @I1@\n", "1\n"})
				if n > 50000 {
					n = 50000
				}
			}
			b = append([]byte(head), bytes.Repeat([]byte(pick(r, []string{"\n", "\r\n", "\r"})), n)...)
			b = append(b, "0 TRLR\n"...)
			// (with AllowMultiLine every blank line is appended to the value
			// of the line before it, one string concatenation each: quadratic
			// in the library as it is, minutes for this input - slow, not a
			// hang, and not what this case is after)
			cfg.AllowMultiLine = false
			break
		}
		fallthrough
	default: // a very long line
		n := 1000 + r.IntN(200000)
		if tier == "thorough" && r.IntN(4) == 0 {
			n = 1 << 20
		}
		b = append([]byte("0 NOTE "), bytes.Repeat([]byte{'x'}, n)...)
		if r.IntN(2) == 0 {
			b = append(b, '\n')
		}
	}
	switch r.IntN(10) {
	case 0, 1:
		b = append([]byte{0xef, 0xbb, 0xbf}, b...)
	case 2:
		// the marks of other encodings and parts of marks, in front of the
		// text as it is or of the text in two bytes per character (a file
		// saved as "Unicode"), possibly cut in the middle of a character
		mark := pick(r, [][]byte{{0xff, 0xfe}, {0xfe, 0xff}, {0xff, 0xfe, 0, 0}, {0, 0, 0xfe, 0xff}, {0xef, 0xbb}, {0xef}, {0xff}, {0xfe}, {0x2b, 0x2f, 0x76, 0x38}, {0xef, 0xbb, 0xbf, 0xef, 0xbb, 0xbf}})
		if len(b) > 2000 {
			b = b[:2000]
		}
		switch r.IntN(3) {
		case 0:
			var w []byte
			for _, c := range b {
				if len(mark) > 0 && mark[0] == 0xfe {
					w = append(w, 0, c)
				} else {
					w = append(w, c, 0)
				}
			}
			b = w
			if r.IntN(2) == 0 && len(b) > 0 {
				b = b[:len(b)-1]
			}
		case 1:
			b = b[:r.IntN(len(b)+1)]
		}
		b = append(append([]byte(nil), mark...), b...)
	}
	cfg.Segments = bytesToSegs(b)
	cfg.Plans = genReadPlans(r, len(b), 3)
	cfg.AllTruncations = len(b) <= 512
	cfg.AllReadErrors = len(b) <= 256
	c := &Case{Prop: prop, Engine: "stream", Stream: cfg}
	return c
}

var lineErrRe = regexp.MustCompile(`^line \d+: `)

// concurrentSeq numbers the concurrent-decoder runs of this process.
var concurrentSeq int

func runTotality(t *testing.T, c *Case, cr *CaseResult) *CaseResult {
	cfg := c.Stream
	prop := c.Prop
	data := segsToBytes(cfg.Segments)
	cr.Valid = true
	st := &streamStats{}
	defer func() { foldStreamStats(cr, st) }()
	ml, ii := cfg.AllowMultiLine, cfg.AllowInvalidIndents
	for _, prior := range cfg.Prior {
		decodeWith([]byte(prior), wholePlan(), ml, ii, st)
		cr.count("history.prior_decode", 1)
	}

	judge := func(what string, o decodeOutcome, injected bool) {
		cr.Runs++
		switch {
		case o.over:
			cr.violate(prop+"/totality", "decoder does not terminate", what)
		case o.panicVal != "":
			if strings.HasPrefix(o.panicVal, "indent is too large") && !ii {
				cr.Probes["tolerated_indent_panic"]++
				return
			}
			v := digitsRe.ReplaceAllString(o.panicVal, "N")
			if i := strings.Index(v, ":"); i > 0 && strings.HasPrefix(v, "indent is too large") {
				v = v[:i]
			}
			cr.violate(prop+"/totality", "panic: "+clip(v, 90), fmt.Sprintf("%s (AllowMultiLine=%v AllowInvalidIndents=%v): %s\ninput: %q", what, ml, ii, o.panicVal, clip(string(data), 300)))
		case o.err != nil && o.doc != nil:
			cr.violate(prop+"/totality", "both a document and an error", what+": "+o.err.Error())
		case o.err == nil && o.doc == nil:
			cr.violate(prop+"/totality", "neither a document nor an error", what)
		case o.err != nil:
			if errors.Is(o.err, errInjectedRead) || errors.Is(o.err, io.ErrNoProgress) {
				cr.Probes["injected_error_returned"]++
				return
			}
			if !lineErrRe.MatchString(o.err.Error()) {
				cr.violate(prop+"/totality", "error does not name the offending line", what+": "+o.err.Error())
			}
			cr.Probes["parse_error"]++
		default:
			cr.Probes["document"]++
		}
	}
	for i, p := range cfg.Plans {
		judge(fmt.Sprintf("plan %d %+v", i, p), decodeWith(data, p, ml, ii, st), false)
		if len(p.Chunks) > 0 {
			cr.NonTrivial = true
			cr.Distinct = append(cr.Distinct, fmt.Sprintf("%x|%v|%v%v", hashBytes(data), p, ml, ii))
		}
	}
	offsets := []int{}
	if cfg.AllTruncations {
		for k := 0; k <= len(data); k++ {
			offsets = append(offsets, k)
		}
	} else {
		for k := 0; k < 24; k++ {
			offsets = append(offsets, (k*7919+len(data)/3)%(len(data)+1))
		}
	}
	for _, k := range offsets {
		p := wholePlan()
		p.TruncAt = k
		p.EOFWithData = k%2 == 0
		if k%3 == 0 {
			p.Chunks = []int{5}
		}
		judge(fmt.Sprintf("truncated at %d of %d", k, len(data)), decodeWith(data, p, ml, ii, st), true)
		cr.NonTrivial = true
	}
	cr.Distinct = append(cr.Distinct, fmt.Sprintf("%x|trunc%d|%v%v", hashBytes(data), len(offsets), ml, ii))
	if cfg.AllReadErrors {
		for k := 0; k <= len(data); k++ {
			p := wholePlan()
			p.ErrAt = k
			p.ErrWithData = k%2 == 1
			p.ErrOnce = k%3 == 0 // the reader fails once and then goes on
			o := decodeWith(data, p, ml, ii, st)
			judge(fmt.Sprintf("read error at %d of %d", k, len(data)), o, true)
			if o.err == nil && o.panicVal == "" && o.doc != nil {
				if p.ErrOnce {
					// the reader recovered: the complete document is a fair answer
					whole := decodeWith(data, wholePlan(), ml, ii, st)
					if whole.err == nil && whole.panicVal == "" && whole.doc != nil && whole.doc.String() == o.doc.String() {
						cr.Probes["one_time_read_error_survived"]++
						continue
					}
				}
				cr.violate(prop+"/totality", "read error swallowed: a document is returned", fmt.Sprintf("reader failed at offset %d of %d (once: %v)", k, len(data), p.ErrOnce))
			}
		}
	}
	// the same Decoder asked a second time (its stream is used up: a document
	// or an error, whatever the first call returned), with another Decoder
	// created and used in between
	{
		good := "0 HEAD\n1 CHAR UTF-8\n0 @I1@ INDI\n1 NAME x /y/\n0 TRLR\n"
		var first, second, between decodeOutcome
		func() {
			dec := gedcom.NewDecoder(newSimReader(data, wholePlan(), &streamStats{}))
			dec.AllowMultiLine, dec.AllowInvalidIndents = ml, ii
			call := func(d *gedcom.Decoder) (o decodeOutcome) {
				defer func() {
					if p := recover(); p != nil {
						o.panicVal = fmt.Sprint(p)
					}
				}()
				o.doc, o.err = d.Decode()
				return o
			}
			first = call(dec)
			other := gedcom.NewDecoder(newSimReader([]byte(good), wholePlan(), &streamStats{}))
			second = call(dec)
			between = call(other)
		}()
		cr.Runs++
		cr.count("history.decoder_used_twice", 1)
		if first.panicVal == "" {
			judge("second Decode on the same Decoder", second, false)
		}
		if between.panicVal != "" || between.err != nil || between.doc == nil || len(between.doc.Nodes()) != 3 {
			cr.violate(prop+"/totality", "a Decoder created while another one was still around does not decode its own stream",
				fmt.Sprintf("panic=%q err=%v", between.panicVal, between.err))
		}
	}
	// two decoders at work at the same time, each on its own stream: what one
	// goroutine decodes must not matter to the other (scheduled by the
	// simulator, watched by the race detector)
	if len(cfg.Prior) > 0 || len(data)%4 == 0 {
		otherText := "0 HEAD\n1 CHAR UTF-8\n0 @I1@ INDI\n1 NAME x /y/\n1 _CUSTOM1 a\n0 @F1@ FAM\n1 HUSB @I1@\n1 _CUSTOM2 b\n0 TRLR\n"
		if len(cfg.Prior) > 0 {
			otherText = cfg.Prior[0]
		}
		// both streams end with a tag this process has not met before (what a
		// decoder keeps about tags it has seen is process-wide state)
		concurrentSeq++
		// (fixed width: the length of the streams, which the schedule of
		// this run is derived from, must not depend on the process history)
		uniq := fmt.Sprintf("%04x%07d", hashBytes(data)&0xffff, concurrentSeq)
		data := append(append([]byte(nil), data...), ("\n0 _A" + uniq + " x\n")...)
		otherText += "0 _B" + uniq + " y\n"
		var together, otherTogether decodeOutcome
		sim := c.Sim
		if sim.Mode == "" || sim.Mode == "default" {
			sim = simrt.Config{Mode: "random", PreemptProb: 0.3, Seed: uint64(len(data))*7919 + 1, MapOrder: "identity"}
		}
		if sim.PointGap == 0 || sim.PointGap > 30 {
			sim.PointGap = 1 + int64(len(data)%30)
		}
		res, _ := runSim(t, cr, prop, sim, func() {
			done := make(chan struct{}, 2)
			simrt.Go("harness:decoder-a", func() {
				simrt.Yield("harness:decoder-a.start")
				together = decodeWith(data, wholePlan(), ml, ii, &streamStats{}) // own statistics: nothing shared but the library
				done <- struct{}{}
			})
			simrt.Go("harness:decoder-b", func() {
				simrt.Yield("harness:decoder-b.start")
				otherTogether = decodeWith([]byte(otherText), wholePlan(), ml, ii, &streamStats{})
				done <- struct{}{}
			})
			for i := 0; i < 2; i++ {
				simrt.Yield("harness:join")
				<-done
			}
		})
		cr.Runs++
		cr.count("concurrent_decoders", 1)
		alone := decodeWith(data, wholePlan(), ml, ii, st)
		otherAlone := decodeWith([]byte(otherText), wholePlan(), ml, ii, st)
		if res.Outcome != "completed" {
			cr.violate(prop+"/totality", "two concurrent decodes: "+res.Outcome, fmt.Sprintf("%+v %+v", res.Crash, res.Leaked))
		} else {
			same := func(a, b decodeOutcome) bool {
				if a.panicVal != b.panicVal || (a.err == nil) != (b.err == nil) || (a.doc == nil) != (b.doc == nil) {
					return false
				}
				if a.err != nil && a.err.Error() != b.err.Error() {
					return false
				}
				return a.doc == nil || dumpForest(fromDoc(a.doc), true) == dumpForest(fromDoc(b.doc), true)
			}
			if !same(alone, together) || !same(otherAlone, otherTogether) {
				cr.violate(prop+"/totality", "the result of a decode depends on another decode running at the same time", fmt.Sprintf("input: %q", clip(string(data), 300)))
			}
		}
	}
	// endless zero-byte reads: bufio must give up, not spin
	for _, k := range []int{0, len(data) / 2, len(data)} {
		p := wholePlan()
		p.StallAt = k
		judge(fmt.Sprintf("reader stalls (0, nil) from offset %d", k), decodeWith(data, p, ml, ii, st), true)
	}
	return cr
}

func runStreamCase(t *testing.T, c *Case) *CaseResult {
	cr := &CaseResult{Prop: c.Prop, Probes: map[string]int64{}, Counters: map[string]int64{}}
	if c.Stream == nil {
		return cr
	}
	switch c.Stream.Mode {
	case "roundtrip":
		return runRoundTrip(t, c, cr)
	case "structure":
		return runStructure(t, c, cr)
	case "totality":
		return runTotality(t, c, cr)
	}
	return cr
}
