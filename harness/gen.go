package harness

// Family-graph workload generator shared by all engines (DESIGN.md §5).
// A Graph is a small model of a GEDCOM file; cases always carry the rendered
// text, so replay and minimisation never depend on this generator.

import (
	"fmt"
	"math/rand/v2"
	"regexp"
	"strconv"
	"strings"
)

type Event struct {
	Tag   string `json:"tag"`
	Date  string `json:"date,omitempty"`
	Place string `json:"place,omitempty"`
}

type Person struct {
	Ptr    string
	Names  []string
	Sex    string
	Events []Event
	UIDs   []string
	FSIDs  []string
	Lines  []string
	FamS   []string
	FamC   []string
}

type Family struct {
	Ptr    string
	Husb   string
	Wife   string
	Chil   []string
	Events []Event
	Lines  []string
}

type Source struct {
	Ptr   string
	Title string
	Lines []string
}

type Graph struct {
	Head     bool
	People   []*Person
	Families []*Family
	Sources  []*Source
	Trailer  bool
}

func NewRand(seed uint64) *rand.Rand {
	return rand.New(rand.NewPCG(seed, seed^0x9e3779b97f4a7c15))
}

var givenPool = []string{"John", "Jon", "Johan", "Jane", "Janet", "Mary", "Marie", "Robert", "Roberta",
	"Elizabeth", "Elisabeth", "William", "Wilhelm", "Sarah", "Sara", "Thomas", "Tomas", "Anna", "Anne", "James",
	"Elliot", "Eliot", "Bob", "Dina", "Victor", "Lisa", "Harriet", "Óscar", "Zoë"}
var surnamePool = []string{"Smith", "Smyth", "Smithe", "Jones", "Johns", "Brown", "Browne", "Taylor", "Tailor",
	"Chance", "Chanse", "Wyndham", "Windham", "Miller", "Müller", "Ångström", "O'Neil", "de la Cruz", "Élan"}
var placePool = []string{"Sydney, NSW, Australia", "Waterloo, Sydney, NSW, Australia", "London, England",
	"New York, USA", "Paris, France", "Wellington, New Zealand", "Springfield", "St. Mary's, Kent, England",
	"Århus, Denmark", "Köln, Germany"}
var months = []string{"Jan", "Feb", "Mar", "Apr", "May", "Jun", "Jul", "Aug", "Sep", "Oct", "Nov", "Dec"}

func pick[T any](r *rand.Rand, xs []T) T { return xs[r.IntN(len(xs))] }

// GenDate renders a date of a random validity class around the given year.
func GenDate(r *rand.Rand, year int) string {
	d := 1 + r.IntN(28)
	m := pick(r, months)
	switch r.IntN(12) {
	case 0:
		return fmt.Sprintf("%d", year)
	case 1:
		return fmt.Sprintf("%s %d", m, year)
	case 2:
		return fmt.Sprintf("Abt. %d", year)
	case 3:
		return fmt.Sprintf("Bef. %s %d", m, year)
	case 4:
		return fmt.Sprintf("Aft. %d %s %d", d, m, year)
	case 5:
		return fmt.Sprintf("Between %d and %d", year-1, year+2)
	case 6:
		return fmt.Sprintf("From %d %s %d to %s %d", d, m, year, m, year+1)
	case 7:
		return pick(r, []string{"unknown", "(deceased)", "31 Feb 1901", "about", "17 Xyz 1880", ""})
	}
	return fmt.Sprintf("%d %s %d", d, m, year)
}

var exactDateRe = regexp.MustCompile(`^(\d{1,2}) ([A-Za-z]{3}) (\d{3,4})$`)

// shiftOneDay moves a date of the form "12 Mar 1850" by one day inside its
// month; every other form is returned as it is.
func shiftOneDay(date string) string {
	m := exactDateRe.FindStringSubmatch(date)
	if m == nil {
		return date
	}
	d, _ := strconv.Atoi(m[1])
	if d < 28 {
		d++
	} else {
		d--
	}
	return fmt.Sprintf("%d %s %s", d, m[2], m[3])
}

func hex32(r *rand.Rand) string {
	const h = "0123456789ABCDEF"
	b := make([]byte, 32)
	for i := range b {
		b[i] = h[r.IntN(16)]
	}
	return string(b)
}

func fsid(r *rand.Rand) string {
	const a = "ABCDEFGHJKLMNPQRSTVWXYZ123456789"
	b := make([]byte, 8)
	for i := range b {
		b[i] = a[r.IntN(len(a))]
	}
	b[4] = '-'
	return string(b)
}

type GraphOpts struct {
	People      int
	BaseYear    int // birth years are drawn from [BaseYear, BaseYear+Span)
	Span        int
	UIDProb     float64
	DupUIDProb  float64 // probability that a person re-uses another person's UID
	Sources     int
	Notes       bool
	BackRefs    bool // emit FAMS/FAMC lines
	DeathProb   float64
	PtrPrefix   string
	ExtraEvents bool
}

// GenGraph draws a random, referentially closed family graph.
func GenGraph(r *rand.Rand, o GraphOpts) *Graph {
	g := &Graph{Head: r.IntN(3) > 0, Trailer: r.IntN(2) == 0}
	if o.Span <= 0 {
		o.Span = 120
	}
	if o.BaseYear == 0 {
		o.BaseYear = 1780
	}
	if o.PtrPrefix == "" {
		o.PtrPrefix = "I"
	}
	var allUIDs []string
	for i := 0; i < o.People; i++ {
		p := &Person{Ptr: fmt.Sprintf("%s%d", o.PtrPrefix, i+1)}
		nn := 1
		switch r.IntN(10) {
		case 0:
			nn = 0
		case 1, 2:
			nn = 2
		case 3:
			nn = 3
		}
		sur := pick(r, surnamePool)
		for k := 0; k < nn; k++ {
			given := pick(r, givenPool)
			if r.IntN(4) == 0 {
				given += " " + pick(r, givenPool)
			}
			s := sur
			if k > 0 && r.IntN(2) == 0 {
				s = pick(r, surnamePool)
			}
			switch r.IntN(12) {
			case 0:
				p.Names = append(p.Names, given) // no surname
			case 1:
				p.Names = append(p.Names, "/"+s+"/") // surname only
			default:
				p.Names = append(p.Names, given+" /"+s+"/")
			}
		}
		switch r.IntN(8) {
		case 0:
		case 1:
			p.Sex = "U"
		case 2, 3, 4:
			p.Sex = "M"
		default:
			p.Sex = "F"
		}
		by := o.BaseYear + r.IntN(o.Span)
		if r.IntN(6) > 0 {
			ev := Event{Tag: "BIRT", Date: GenDate(r, by)}
			if r.IntN(2) == 0 {
				ev.Place = pick(r, placePool)
			}
			p.Events = append(p.Events, ev)
		}
		if o.ExtraEvents && r.IntN(5) == 0 {
			p.Events = append(p.Events, Event{Tag: "BAPM", Date: GenDate(r, by), Place: pick(r, placePool)})
		}
		if r.Float64() < o.DeathProb {
			ev := Event{Tag: "DEAT", Date: GenDate(r, by+20+r.IntN(60))}
			if r.IntN(2) == 0 {
				ev.Place = pick(r, placePool)
			}
			p.Events = append(p.Events, ev)
			if o.ExtraEvents && r.IntN(4) == 0 {
				p.Events = append(p.Events, Event{Tag: "BURI", Date: GenDate(r, by+80), Place: pick(r, placePool)})
			}
		}
		if o.ExtraEvents && r.IntN(6) == 0 {
			p.Events = append(p.Events, Event{Tag: "RESI", Date: GenDate(r, by+30), Place: pick(r, placePool)})
		}
		if r.Float64() < o.UIDProb {
			if len(allUIDs) > 0 && r.Float64() < o.DupUIDProb {
				p.UIDs = append(p.UIDs, pick(r, allUIDs))
			} else {
				u := hex32(r)
				allUIDs = append(allUIDs, u)
				p.UIDs = append(p.UIDs, u)
			}
			if r.IntN(4) == 0 {
				p.FSIDs = append(p.FSIDs, fsid(r))
			}
			if r.IntN(8) == 0 {
				p.UIDs = append(p.UIDs, "not-a-uuid")
			}
		}
		if o.UIDProb > 0 && len(p.UIDs) == 0 && r.IntN(7) == 0 {
			// an identifier that is not a UUID, and nothing else: the record
			// number of some other program. It identifies nobody.
			p.UIDs = append(p.UIDs, fmt.Sprintf("REC-%06d", r.IntN(1000000)))
		}
		if o.Notes && r.IntN(4) == 0 {
			p.Lines = append(p.Lines, "1 NOTE "+pick(r, []string{"A note", "See also @I1@", "x < y & z", "", "50% off"}))
		}
		g.People = append(g.People, p)
	}
	// families: partition a shuffled list of people into couples with children
	n := len(g.People)
	nf := 0
	if n >= 2 {
		nf = r.IntN(n/2 + 1)
	}
	for i := 0; i < nf; i++ {
		f := &Family{Ptr: fmt.Sprintf("F%d", i+1)}
		if r.IntN(8) > 0 {
			f.Husb = pick(r, g.People).Ptr
		}
		if r.IntN(8) > 0 {
			w := pick(r, g.People).Ptr
			if w != f.Husb {
				f.Wife = w
			}
		}
		nc := r.IntN(4)
		for c := 0; c < nc; c++ {
			ch := pick(r, g.People).Ptr
			if ch != f.Husb && ch != f.Wife && !containsStr(f.Chil, ch) {
				f.Chil = append(f.Chil, ch)
			}
		}
		if r.IntN(3) == 0 {
			f.Events = append(f.Events, Event{Tag: "MARR", Date: GenDate(r, o.BaseYear+25+r.IntN(o.Span)), Place: pick(r, placePool)})
		}
		g.Families = append(g.Families, f)
	}
	if o.BackRefs {
		for _, f := range g.Families {
			for _, p := range g.People {
				if p.Ptr == f.Husb || p.Ptr == f.Wife {
					p.FamS = append(p.FamS, f.Ptr)
				}
				if containsStr(f.Chil, p.Ptr) {
					p.FamC = append(p.FamC, f.Ptr)
				}
			}
		}
	}
	for i := 0; i < o.Sources; i++ {
		s := &Source{Ptr: fmt.Sprintf("S%d", i+1)}
		if r.IntN(5) > 0 {
			s.Title = pick(r, []string{"1851 Census", "Parish register", "Family bible", "Letters & papers"})
		}
		if r.IntN(2) == 0 {
			s.Lines = append(s.Lines, "1 AUTH "+pick(r, givenPool))
		}
		g.Sources = append(g.Sources, s)
	}
	return g
}

func containsStr(xs []string, s string) bool {
	for _, x := range xs {
		if x == s {
			return true
		}
	}
	return false
}

func writeEvents(b *strings.Builder, evs []Event) {
	for _, e := range evs {
		b.WriteString("1 " + e.Tag + "\n")
		if e.Date != "" {
			b.WriteString("2 DATE " + e.Date + "\n")
		}
		if e.Place != "" {
			b.WriteString("2 PLAC " + e.Place + "\n")
		}
	}
}

// Text renders the graph as GEDCOM.
func (g *Graph) Text() string {
	var b strings.Builder
	if g.Head {
		b.WriteString("0 HEAD\n1 CHAR UTF-8\n")
	}
	for _, p := range g.People {
		if p.Ptr == "" {
			b.WriteString("0 INDI\n")
		} else {
			b.WriteString("0 @" + p.Ptr + "@ INDI\n")
		}
		for _, n := range p.Names {
			b.WriteString("1 NAME " + n + "\n")
		}
		if p.Sex != "" {
			b.WriteString("1 SEX " + p.Sex + "\n")
		}
		writeEvents(&b, p.Events)
		for _, u := range p.UIDs {
			b.WriteString("1 _UID " + u + "\n")
		}
		for _, u := range p.FSIDs {
			b.WriteString("1 _FSFTID " + u + "\n")
		}
		for _, f := range p.FamS {
			b.WriteString("1 FAMS @" + f + "@\n")
		}
		for _, f := range p.FamC {
			b.WriteString("1 FAMC @" + f + "@\n")
		}
		for _, l := range p.Lines {
			b.WriteString(l + "\n")
		}
	}
	for _, f := range g.Families {
		b.WriteString("0 @" + f.Ptr + "@ FAM\n")
		if f.Husb != "" {
			b.WriteString("1 HUSB @" + f.Husb + "@\n")
		}
		if f.Wife != "" {
			b.WriteString("1 WIFE @" + f.Wife + "@\n")
		}
		for _, c := range f.Chil {
			b.WriteString("1 CHIL @" + c + "@\n")
		}
		writeEvents(&b, f.Events)
		for _, l := range f.Lines {
			b.WriteString(l + "\n")
		}
	}
	for _, s := range g.Sources {
		b.WriteString("0 @" + s.Ptr + "@ SOUR\n")
		if s.Title != "" {
			b.WriteString("1 TITL " + s.Title + "\n")
		}
		for _, l := range s.Lines {
			b.WriteString(l + "\n")
		}
	}
	if g.Trailer {
		b.WriteString("0 TRLR\n")
	}
	return b.String()
}

// padText adds blanks the decoder has always ignored: a trailing blank on
// every every-th line below level 0 that has a value, a second blank between
// tag and value on the line after it. The document does not change.
func padText(text string, every int) string {
	if every <= 0 {
		return text
	}
	lines := strings.Split(text, "\n")
	for i, l := range lines {
		f := strings.SplitN(l, " ", 3)
		if len(f) < 3 || f[0] == "0" || strings.HasPrefix(f[1], "@") {
			continue
		}
		switch i % every {
		case 0:
			lines[i] = l + " "
		case 1:
			lines[i] = f[0] + " " + f[1] + "  " + f[2]
		}
	}
	return strings.Join(lines, "\n")
}

func (g *Graph) Clone() *Graph {
	c := &Graph{Head: g.Head, Trailer: g.Trailer}
	for _, p := range g.People {
		q := *p
		q.Names = append([]string(nil), p.Names...)
		q.Events = append([]Event(nil), p.Events...)
		q.UIDs = append([]string(nil), p.UIDs...)
		q.FSIDs = append([]string(nil), p.FSIDs...)
		q.Lines = append([]string(nil), p.Lines...)
		q.FamS = append([]string(nil), p.FamS...)
		q.FamC = append([]string(nil), p.FamC...)
		c.People = append(c.People, &q)
	}
	for _, f := range g.Families {
		q := *f
		q.Chil = append([]string(nil), f.Chil...)
		q.Events = append([]Event(nil), f.Events...)
		q.Lines = append([]string(nil), f.Lines...)
		c.Families = append(c.Families, &q)
	}
	for _, s := range g.Sources {
		q := *s
		q.Lines = append([]string(nil), s.Lines...)
		c.Sources = append(c.Sources, &q)
	}
	return c
}

func typo(r *rand.Rand, s string) string {
	rs := []rune(s)
	if len(rs) < 3 {
		return s
	}
	i := 1 + r.IntN(len(rs)-2)
	switch r.IntN(3) {
	case 0:
		rs[i], rs[i+1] = rs[i+1], rs[i]
	case 1:
		rs = append(rs[:i], rs[i+1:]...)
	default:
		rs[i] = 'e'
	}
	return string(rs)
}

// Derive produces "the other side" of a comparison: an independently edited
// copy (renumbered pointers, dropped/added people, perturbed names and dates).
func Derive(r *rand.Rand, g *Graph, o GraphOpts) *Graph {
	c := g.Clone()
	renumber := r.IntN(3) == 0
	mapping := map[string]string{}
	// drop some people
	var kept []*Person
	for _, p := range c.People {
		if r.IntN(6) == 0 {
			continue
		}
		kept = append(kept, p)
	}
	c.People = kept
	for i, p := range c.People {
		old := p.Ptr
		if renumber || r.IntN(8) == 0 {
			p.Ptr = fmt.Sprintf("P%d", 100+i)
		}
		mapping[old] = p.Ptr
		for k := range p.Names {
			if r.IntN(4) == 0 {
				p.Names[k] = typo(r, p.Names[k])
			}
		}
		for k := range p.Events {
			if r.IntN(4) == 0 {
				p.Events[k].Date = GenDate(r, o.BaseYear+r.IntN(o.Span+1))
			}
		}
		if r.IntN(5) == 0 {
			p.UIDs = nil
			p.FSIDs = nil
		}
	}
	// pointer rotation: two or three people exchange their pointers, so that
	// a pointer match points at the wrong person (an export that renumbers);
	// the families follow the people, not the pointers
	if len(c.People) >= 2 && r.IntN(4) == 0 {
		k := 2 + r.IntN(2)
		if k > len(c.People) {
			k = len(c.People)
		}
		idx := r.Perm(len(c.People))[:k]
		ptrs := make([]string, k)
		for i, j := range idx {
			ptrs[i] = c.People[j].Ptr
		}
		inv := map[string]string{}
		for old, nw := range mapping {
			inv[nw] = old
		}
		for i, j := range idx {
			np := ptrs[(i+1)%k]
			c.People[j].Ptr = np
			mapping[inv[ptrs[i]]] = np
		}
	}
	fix := func(s string) string {
		if s == "" {
			return ""
		}
		if m, ok := mapping[s]; ok {
			return m
		}
		return "" // dropped person
	}
	for _, f := range c.Families {
		f.Husb, f.Wife = fix(f.Husb), fix(f.Wife)
		var ch []string
		for _, x := range f.Chil {
			if y := fix(x); y != "" {
				ch = append(ch, y)
			}
		}
		f.Chil = ch
	}
	// add strangers and identical twins
	extra := r.IntN(3)
	for i := 0; i < extra; i++ {
		if len(c.People) > 0 && r.IntN(2) == 0 {
			orig := pick(r, c.People)
			t := *orig
			t.Ptr = fmt.Sprintf("T%d", i+1)
			t.UIDs, t.FSIDs = nil, nil
			t.Names = append([]string(nil), t.Names...)
			t.Events = append([]Event(nil), t.Events...)
			if r.IntN(2) == 0 {
				// a near twin: every exact date is one day off, so the scores
				// of the two candidates differ in the seventh decimal or so:
				// close, and not a tie
				for k := range t.Events {
					t.Events[k].Date = shiftOneDay(t.Events[k].Date)
				}
				if r.IntN(2) == 0 && orig.Ptr != "" {
					// the original can only be found by comparing (a new
					// pointer, no identifiers) and the near twin stands in
					// front of it: whoever takes "almost equal" for "equal"
					// meets the wrong one first
					old := orig.Ptr
					orig.Ptr = fmt.Sprintf("Q%d", i+1)
					orig.UIDs, orig.FSIDs = nil, nil
					for _, f := range c.Families {
						if f.Husb == old {
							f.Husb = orig.Ptr
						}
						if f.Wife == old {
							f.Wife = orig.Ptr
						}
						for k := range f.Chil {
							if f.Chil[k] == old {
								f.Chil[k] = orig.Ptr
							}
						}
					}
					for k, q := range c.People {
						if q == orig {
							c.People = append(c.People[:k], append([]*Person{&t}, c.People[k:]...)...)
							break
						}
					}
					continue
				}
			}
			c.People = append(c.People, &t)
		} else {
			ng := GenGraph(r, GraphOpts{People: 1, BaseYear: o.BaseYear, Span: o.Span, PtrPrefix: fmt.Sprintf("N%d_", i)})
			c.People = append(c.People, ng.People...)
		}
	}
	if r.IntN(4) == 0 {
		r.Shuffle(len(c.People), func(i, j int) { c.People[i], c.People[j] = c.People[j], c.People[i] })
	}
	return c
}
