package harness

// C14: no command crashes on a file the decoder accepts (DESIGN.md §5 C14).
// The library work behind each command is driven the way the command drives
// it, inside the scheduler, on structurally corrupted files.

import (
	"bytes"
	"fmt"
	"math/rand/v2"
	"strings"
	"testing"

	gedcom "github.com/elliotchance/gedcom/v39"
	"github.com/elliotchance/gedcom/v39/q"
)

type CommandCfg struct {
	Command string   `json:"command"` // warnings, publish, diff, query
	Query   string   `json:"query,omitempty"`
	Format  string   `json:"format,omitempty"`
	Faults  []string `json:"faults,omitempty"` // which structural faults were applied (informational)
	// Via: "" = the library calls the command makes, made by the harness;
	// "cli" = the code of the command itself (engine_cli.go)
	Via string `json:"via,omitempty"`
}

var exampleQueries = []string{
	`.Individuals | .Name`,
	`.Individuals | .Name | .String`,
	`.Individuals | NodesWithTagPath("DEAT")`,
	`.Individuals | NodesWithTagPath("BIRT", "DATE")`,
	`Births are .Individuals | NodesWithTagPath("BIRT", "DATE") | {type: "birth", date: .String}; Deaths are .Individuals | NodesWithTagPath("DEAT", "DATE") | {type: "death", date: .String}; Combine(Births, Deaths)`,
	`.Individuals | Only(.Age > 100)`,
	`.Individuals | ?`,
	`Names are .Individuals | .Name; Names | .String`,
	`Indi is .Individuals; Names are Indi | .Name; Names | .String`,
	`.Individuals | { name: .Name | .String, born: .Birth | .String }`,
	`.Individuals | {}`,
	`.Individuals | Length`,
	`.Individuals | First(3) | { name: .Name | .String, born: .Birth | .String, died: .Death | .String}`,
	`.Individuals | Last(2)`,
	`.Individuals | .Name | Only(.GivenName = "John") | .String`,
	`.Individuals | Only(.IsLiving) | { name: .Name | .String, age: .Age | .String}`,
	`.Families | { husband: .Husband | .String, wife: .Wife | .String }`,
	`.Individuals | .Spouses`,
	`.Individuals | .Parents`,
	`.Individuals | .Children`,
	`.Individuals | .Families`,
	`.Warnings`,
	`.Individuals | .AllEvents`,
	`.Families | .Children`,
	`.Individuals | .SurroundingSimilarity`,
	`.Sources | .Title`,
	`.Places`,
}

// applyStructuralFaults perturbs a well-formed graph by 0-4 of the structural
// faults the property lists; the result stays decodable.
func applyStructuralFaults(r *rand.Rand, g *Graph) []string {
	var applied []string
	k := r.IntN(5)
	for i := 0; i < k; i++ {
		if len(g.People) == 0 {
			g.People = append(g.People, &Person{Ptr: "I1", Names: []string{"Only /One/"}})
		}
		if len(g.Families) == 0 {
			g.Families = append(g.Families, &Family{Ptr: "F1", Husb: g.People[0].Ptr})
		}
		f := pick(r, g.Families)
		p := pick(r, g.People)
		kind := r.IntN(21)
		switch kind {
		case 0:
			applied = append(applied, "missing-spouse-record")
			if r.IntN(2) == 0 {
				f.Husb = "X99"
			} else {
				f.Wife = "X98"
			}
		case 1:
			applied = append(applied, "missing-child-record")
			f.Chil = append(f.Chil, "X97")
		case 2:
			applied = append(applied, "wrong-kind-reference")
			switch r.IntN(3) {
			case 0:
				f.Husb = f.Ptr
			case 1:
				f.Chil = append(f.Chil, f.Ptr)
			default:
				g.Sources = append(g.Sources, &Source{Ptr: "SW", Title: "t"})
				f.Wife = "SW"
			}
		case 3:
			applied = append(applied, "empty-role-value")
			f.Lines = append(f.Lines, "1 "+pick(r, []string{"HUSB", "WIFE", "CHIL"}))
			if r.IntN(2) == 0 {
				f.Husb = ""
			}
		case 4:
			applied = append(applied, "individual-without-name")
			if r.IntN(2) == 0 {
				p = g.People[0] // the first row of a result decides the columns of a table
			}
			p.Names = nil
		case 18:
			// a name that reads like one of the site's own pages
			applied = append(applied, "name-like-a-page")
			p.Names = []string{pick(r, []string{"Individuals /Unlinked/", "Individuals (unknown)", "Places /Of Interest/", "Families", "Sources /S/",
				"Surnames /A/", "Statistics", "Index", "Individuals /Symbol/", "individuals /a/"})}
		case 17:
			// a NAME line without a value, the parts below it
			applied = append(applied, "name-only-in-parts")
			if r.IntN(2) == 0 {
				p = g.People[0]
			}
			p.Names = nil
			p.Lines = append(p.Lines, "1 NAME", "2 GIVN John", "2 SURN Smith")
		case 5:
			applied = append(applied, "name-without-surname")
			p.Names = []string{pick(r, []string{"John", "", "//", "/ /", "Anna Maria"})}
		case 6:
			applied = append(applied, "own-parent-or-spouse")
			f.Husb, f.Wife = p.Ptr, p.Ptr
			f.Chil = append(f.Chil, p.Ptr)
		case 7:
			applied = append(applied, "duplicate-pointer")
			switch r.IntN(3) {
			case 0:
				q := *p
				q.Names = []string{"Dup /Licate/"}
				// (its events are its own: two records that are the same
				// line for line cannot be told apart by anything but their
				// addresses, and the order of such twins in pointer-keyed
				// maps is the one thing the simulator does not decide)
				q.Events = nil
				for k, e := range p.Events {
					e.Date = fmt.Sprintf("%d Jan %d", 1+k, 1700+i)
					q.Events = append(q.Events, e)
				}
				g.People = append(g.People, &q)
			case 1:
				g.Families = append(g.Families, &Family{Ptr: p.Ptr, Husb: p.Ptr})
			default:
				g.Families = append(g.Families, &Family{Ptr: f.Ptr, Wife: p.Ptr})
			}
		case 8:
			applied = append(applied, "empty-family")
			g.Families = append(g.Families, &Family{Ptr: fmt.Sprintf("FE%d", i)})
		case 9:
			applied = append(applied, "source-without-title")
			g.Sources = append(g.Sources, &Source{Ptr: fmt.Sprintf("SN%d", i)})
			p.Lines = append(p.Lines, fmt.Sprintf("1 SOUR @SN%d@", i))
		case 10:
			applied = append(applied, "odd-surname")
			p.Names = []string{"Zed /" + pick(r, []string{"9lives", "#", "Élan", "Ångström", "(?)", "-", "_", "ß", "Ж", " "}) + "/"}
		case 11:
			applied = append(applied, "ancestor-cycle")
			if len(g.People) >= 2 {
				a, b := g.People[0].Ptr, g.People[1].Ptr
				g.Families = append(g.Families, &Family{Ptr: fmt.Sprintf("FC%da", i), Husb: a, Chil: []string{b}},
					&Family{Ptr: fmt.Sprintf("FC%db", i), Husb: b, Chil: []string{a}})
			}
		case 12:
			applied = append(applied, "dangling-back-reference")
			p.FamS = append(p.FamS, "F404")
			p.FamC = append(p.FamC, "F405")
		case 13:
			applied = append(applied, "empty-values")
			p.Lines = append(p.Lines, "1 BIRT", "2 DATE", "2 PLAC", "1 SEX", "1 NAME", "1 _UID", "1 FAMS", "1 FAMC")
		case 14:
			applied = append(applied, "odd-dates")
			p.Events = append(p.Events, Event{Tag: "BIRT", Date: pick(r, []string{"32 Jan 1900", "0", "BET", "from to", "99999", "Abt.", "1 1 1", "Feb 30 2001", "-5", "1900 BC"})},
				Event{Tag: "DEAT", Date: pick(r, []string{"garbage", "AND", "Aft.", "between and", "3000"})})
		case 15:
			// decodable and legal; its page's file name exceeds what a file
			// system accepts, so the writer fails on that one page
			applied = append(applied, "very-long-name")
			p.Names = []string{strings.Repeat("Maria Anna ", 30) + "/" + strings.Repeat("Habsburg", 8) + "/"}
		case 16:
			// legal GEDCOM 5.5: the age of the husband/wife at a family event
			applied = append(applied, "role-substructure-in-family-event")
			f.Lines = append(f.Lines, "1 "+pick(r, []string{"MARR", "DIV", "ENGA", "EVEN"}), "2 DATE 1 Jan 1900",
				"2 HUSB", "3 AGE 25y", "2 WIFE", "3 AGE 22y")
			if r.IntN(3) == 0 {
				f.Lines = append(f.Lines, "2 CHIL @"+p.Ptr+"@")
			}
		case 20:
			// legal: nobody's sex is recorded as M or F
			applied = append(applied, "nobody-with-known-sex")
			for _, q := range g.People {
				q.Sex = pick(r, []string{"", "U", "u", "X", "N"})
			}
		default:
			applied = append(applied, "pointerless-records")
			p.Lines = append(p.Lines, "0 INDI", "1 NAME No /Pointer/", "0 FAM", "1 HUSB @"+p.Ptr+"@")
		}
	}
	return applied
}

func genCommandCase(prop, tier string, r *rand.Rand) *Case {
	maxN := 7
	if tier == "thorough" {
		maxN = 12
	}
	o := GraphOpts{People: r.IntN(maxN + 1), DeathProb: 0.5, BaseYear: 1800, Span: 220, Sources: r.IntN(2),
		Notes: true, ExtraEvents: true, UIDProb: 0.3, DupUIDProb: 0.3, BackRefs: r.IntN(2) == 0}
	g := GenGraph(r, o)
	faults := applyStructuralFaults(r, g)
	c := &Case{Prop: prop, Engine: "commands", Docs: []string{g.Text()}}
	cmd := &CommandCfg{Faults: faults}
	c.Sim = GenSim(r)
	c.Today = pick(r, []string{"", "", "2025-03-01"})
	switch r.IntN(8) {
	case 0:
		cmd.Command = "warnings"
	case 1, 2, 3:
		cmd.Command = "publish"
		c.Publish = &PublishCfg{Options: genPubOptions(r, []string{"show", "hide", "placeholder"}), Jobs: pick(r, []int{1, 1, 2, 8})}
		c.Publish.Options.NameLimit = 255
	case 4, 5:
		cmd.Command = "diff"
		g2 := Derive(r, g, o)
		if r.IntN(2) == 0 {
			applyStructuralFaults(r, g2)
		}
		c.Docs = append(c.Docs, g2.Text())
		c.Compare = &CompareCfg{Jobs: pick(r, []int{1, 1, 4}), MinWS: -1, PreferPtr: -1, DiffPage: true,
			DiffShow: pick(r, []string{"all", "only-matches", "subset"}),
			DiffSort: pick(r, []string{"written-name", "highest-similarity"}),
			Notifier: "drain", NotifierStep: 100, WaitNotifier: true}
		if r.IntN(6) == 0 {
			// one file without any individual
			empty := &Graph{Head: true, Trailer: true}
			if r.IntN(2) == 0 {
				empty.Families = append(empty.Families, &Family{Ptr: "F1"})
			}
			if r.IntN(2) == 0 {
				c.Docs[0] = empty.Text()
			} else {
				c.Docs[1] = empty.Text()
			}
		}
	default:
		cmd.Command = "query"
		cmd.Query = pick(r, exampleQueries)
		cmd.Format = pick(r, []string{"json", "pretty-json", "csv", "csv", "gedcom", "html"})
		if cmd.Format == "csv" && r.IntN(2) == 0 {
			// results whose rows need not all have the same columns
			cmd.Query = pick(r, []string{`.Individuals | .Name`, `.Warnings`, `.Individuals | .AllEvents`})
		}
		if r.IntN(5) == 0 {
			// the documented "merge two GEDCOM files" command: a second file,
			// the same one or a revision of it
			cmd.Query = `MergeDocumentsAndIndividuals(Document1, Document2)`
			if r.IntN(2) == 0 {
				c.Docs = append(c.Docs, c.Docs[0])
			} else {
				g2 := Derive(r, g, o)
				if r.IntN(2) == 0 {
					applyStructuralFaults(r, g2)
				}
				c.Docs = append(c.Docs, g2.Text())
			}
			if r.IntN(3) > 0 {
				cmd.Format = "gedcom"
			}
		}
	}
	if r.IntN(3) == 0 {
		cmd.Via = "cli"
		if c.Compare != nil && r.IntN(4) == 0 {
			// flag values as a user might type them (capitals, an unknown one)
			c.Compare.FlagCase = 1 + r.IntN(3)
		}
	}
	c.History = nil
	c.Command = cmd
	return c
}

func runCommandCase(t *testing.T, c *Case) *CaseResult {
	cr := &CaseResult{Prop: c.Prop, Probes: map[string]int64{}, Counters: map[string]int64{}}
	if c.Command == nil || len(c.Docs) == 0 {
		return cr
	}
	prop := c.Prop
	cmd := c.Command
	for _, f := range cmd.Faults {
		cr.count("storage."+f, 1)
	}
	if len(cmd.Faults) > 0 {
		cr.NonTrivial = true
	}
	cr.Probes["command="+cmd.Command]++
	if cmd.Via == "cli" {
		var args []string
		what := "gedcom " + cmd.Command
		switch cmd.Command {
		case "publish":
			args = publishArgs(c.Publish)
			what += " " + c.Publish.Options.Visibility
			cr.Probes["visibility="+c.Publish.Options.Visibility]++
		case "diff":
			args = diffArgs(c.Compare)
		case "warnings":
			args = []string{"warnings", "$0"}
		default:
			args = []string{"query", "-gedcom", "$0"}
			if len(c.Docs) > 1 {
				args = append(args, "-gedcom", "$1")
				cr.Probes["query=merge"]++
			}
			args = append(args, "-format", cmd.Format, cmd.Query)
		}
		run, ok := runCLI(t, cr, prop, c.Docs, args, c.Sim, c.Today)
		if !ok {
			return cr
		}
		cr.Valid = true
		cr.Recorded = &run.res.Recorded
		cr.Trace = run.res.Trace
		cr.Probes["via=cli"]++
		cliOutcome(cr, prop, run, what)
		return cr
	}
	switch cmd.Command {
	case "publish":
		run, ok := runPublish(t, cr, prop, c.Docs[0], c.Publish.Options, c.Publish.Jobs, c.Sim, c.Today, nil)
		if !ok {
			return cr
		}
		cr.Valid = true
		cr.Recorded = &run.res.Recorded
		cr.Probes["visibility="+c.Publish.Options.Visibility]++
		for _, e := range run.events {
			if e.Err == errNameTooLong.Error() {
				cr.count("storage.file_name_too_long", 1)
			}
		}
		outcomeViolation(cr, prop, &run.res, "publish "+c.Publish.Options.Visibility)
	case "diff":
		run, ok := runCompare(t, cr, prop, c, *c.Compare, c.Sim)
		if !ok {
			return cr
		}
		cr.Valid = true
		cr.Recorded = &run.res.Recorded
		outcomeViolation(cr, prop, &run.res, "diff")
	case "warnings", "query":
		doc, err := decode(c.Docs[0])
		if err != nil {
			return cr
		}
		var doc2 *gedcom.Document
		if cmd.Command == "query" && len(c.Docs) > 1 {
			if doc2, err = decode(c.Docs[1]); err != nil {
				return cr
			}
			cr.Probes["query=merge"]++
		}
		cr.Valid = true
		sim := c.Sim
		sim.Today = parseToday(c.Today)
		var out bytes.Buffer
		res, _ := runSim(t, cr, prop, sim, func() {
			if cmd.Command == "warnings" {
				for _, w := range doc.Warnings() {
					fmt.Fprintln(&out, w)
				}
				return
			}
			engine, err := q.NewParser().ParseString(cmd.Query)
			if err != nil {
				fmt.Fprintln(&out, "error:", err)
				return
			}
			docs := []*gedcom.Document{doc}
			if doc2 != nil {
				docs = append(docs, doc2)
			}
			result, err := engine.Evaluate(docs)
			if err != nil {
				fmt.Fprintln(&out, "error:", err)
				return
			}
			var f q.Formatter
			switch cmd.Format {
			case "pretty-json":
				f = &q.PrettyJSONFormatter{Writer: &out}
			case "csv":
				f = &q.CSVFormatter{Writer: &out}
			case "gedcom":
				f = &q.GEDCOMFormatter{Writer: &out}
			case "html":
				f = &q.HTMLFormatter{Writer: &out}
			default:
				f = &q.JSONFormatter{Writer: &out}
			}
			if err := f.Write(result); err != nil {
				fmt.Fprintln(&out, "error:", err)
			}
		})
		what := cmd.Command
		outcomeViolation(cr, prop, &res, what)
	}
	// distinct = distinct case hashes among cases with a structural fault
	cr.Distinct = nil
	if len(cmd.Faults) > 0 {
		cr.NonTrivial = true
		cr.Distinct = append(cr.Distinct, hashCase(c))
	} else {
		cr.NonTrivial = false
	}
	return cr
}
