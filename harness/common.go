package harness

import (
	"crypto/sha256"
	"encoding/hex"
	"encoding/json"
	"fmt"
	"math/rand/v2"
	"os"
	"regexp"
	"sort"
	"strings"
	"testing"
	"time"
	"unsafe"

	gedcom "github.com/elliotchance/gedcom/v39"
	"simrt"
)

// Case is the fully expanded, self-contained description of one simulated
// case: documents, options, fault plan, schedule. Replay reads it and never a
// PRNG, so a minimised case is not tied to any generator version.
type Case struct {
	Prop   string       `json:"prop"`
	Engine string       `json:"engine"`
	Seed   uint64       `json:"seed"`
	Idx    int          `json:"idx"`
	Docs   []string     `json:"docs,omitempty"`
	Sim    simrt.Config `json:"sim"`
	Today  string       `json:"today,omitempty"`
	// GoMaxProcs > 0: runtime.GOMAXPROCS is set to this value for the case
	// (scheduling is decided by the simulator whatever it is, but code can
	// read it as a configuration value).
	GoMaxProcs int `json:"gomaxprocs,omitempty"`

	Compare *CompareCfg `json:"compare,omitempty"`
	Publish *PublishCfg `json:"publish,omitempty"`
	History *HistoryCfg `json:"history,omitempty"`
	Stream  *StreamCfg  `json:"stream,omitempty"`
	Command *CommandCfg `json:"command,omitempty"`
}

type Violation struct {
	Oracle    string `json:"oracle"`
	Signature string `json:"signature"`
	Detail    string `json:"detail"`
}

// CaseResult is one line of the worker's output.
type CaseResult struct {
	Idx          int              `json:"idx"`
	Seed         uint64           `json:"seed"`
	Prop         string           `json:"prop"`
	CaseHash     string           `json:"case_hash"`
	Valid        bool             `json:"valid"`
	Violations   []Violation      `json:"violations,omitempty"`
	Observations []string         `json:"observations,omitempty"`
	Masked       string           `json:"masked,omitempty"`
	Runs         int              `json:"runs"`
	NonTrivial   bool             `json:"nontrivial"`
	Distinct     []string         `json:"distinct,omitempty"`
	Counters     map[string]int64 `json:"counters"`
	Probes       map[string]int64 `json:"probes"`
	Switches     []string         `json:"switches,omitempty"`
	SimTimeNs    int64            `json:"sim_time_ns"`
	Steps        int64            `json:"steps"`
	EventHash    string           `json:"event_hash"`
	WallMs       int64            `json:"wall_ms"`
	Recorded     *simrt.Schedule  `json:"recorded,omitempty"`
	Sample       interface{}      `json:"sample,omitempty"`
	Trace        []string         `json:"trace,omitempty"`
}

func (r *CaseResult) count(name string, n int64) {
	if r.Counters == nil {
		r.Counters = map[string]int64{}
	}
	r.Counters[name] += n
}

func (r *CaseResult) violate(oracle, sig, detail string) {
	if len(detail) > 4000 {
		detail = detail[:4000] + "…"
	}
	for _, v := range r.Violations {
		if v.Oracle == oracle && v.Signature == sig {
			return
		}
	}
	r.Violations = append(r.Violations, Violation{oracle, sig, detail})
}

func (r *CaseResult) observe(s string) {
	for _, o := range r.Observations {
		if o == s {
			return
		}
	}
	if len(r.Observations) < 20 {
		r.Observations = append(r.Observations, s)
	}
}

// absorb folds the statistics of one simulated run into the case result.
func (r *CaseResult) absorb(res *simrt.Result) {
	r.Runs++
	r.count("sched.decisions", res.Steps)
	r.count("sched.contended", res.Contended)
	r.count("sched.deviation", res.Deviations)
	r.count("sched.stall", res.Stalls)
	r.count("sched.point_preempt", res.PointPreempts)
	r.count("sched.select_reorder", res.SelectReorders)
	r.count("sched.clock_advance", res.ClockAdvances)
	r.count("sched.idle_wake", res.IdleWakes)
	r.count("sched.lock_contended", res.LockContended)
	r.count("sched.infeasible", res.Infeasible)
	r.count("map.permuted", res.MapPermuted)
	r.count("map.unlabelled", res.MapUnlabelled)
	r.count("knob.chan_cap_small", res.ChanCapsSmall)
	r.count("goroutines", res.Tasks)
	r.count("points", res.Points)
	r.count("leaked_goroutines", int64(len(res.Leaked)))
	r.SimTimeNs += res.SimTimeNs
	r.Steps += res.Steps
	if r.Probes == nil {
		r.Probes = map[string]int64{}
	}
	for k, v := range res.Probes {
		r.Probes[k] += int64(v)
	}
	if res.LockContended > 0 {
		r.Probes["mutex_contended"] += res.LockContended
	}
	seen := map[string]bool{}
	for _, s := range r.Switches {
		seen[s] = true
	}
	for k := range res.Switches {
		if !seen[k] && len(r.Switches) < 400 {
			r.Switches = append(r.Switches, k)
		}
	}
	sort.Strings(r.Switches)
	if res.Contended > 0 && (res.Deviations > 0 || res.PointPreempts > 0 || res.SelectReorders > 0 || res.MapPermuted > 0) {
		r.Distinct = append(r.Distinct, fmt.Sprintf("%016x", res.ContendedHash^uint64(res.MapPermuted)<<1))
		r.NonTrivial = true
	}
	h := sha256.Sum256([]byte(fmt.Sprintf("%s|%016x|%s", r.EventHash, res.Hash, res.Outcome)))
	r.EventHash = hex.EncodeToString(h[:8])
}

func hashCase(c *Case) string {
	b, _ := json.Marshal(c)
	h := sha256.Sum256(b)
	return hex.EncodeToString(h[:8])
}

// ---------------------------------------------------------------------------
// decoding helpers and labels

func decode(text string) (doc *gedcom.Document, err error) {
	defer func() {
		if r := recover(); r != nil {
			doc, err = nil, fmt.Errorf("decoder panic: %v", r)
		}
	}()
	return gedcom.NewDocumentFromString(text)
}

// labelDoc gives every node of the document a canonical rank (pre-order
// index) so that maps keyed by node pointers can be iterated reproducibly.
func labelDoc(labels map[unsafe.Pointer]int, doc *gedcom.Document, base int) int {
	n := base
	var walk func(node gedcom.Node)
	walk = func(node gedcom.Node) {
		if gedcom.IsNil(node) || n-base > 200000 {
			return
		}
		labels[nodePtr(node)] = n
		n++
		for _, c := range node.Nodes() {
			walk(c)
		}
	}
	for _, node := range doc.Nodes() {
		walk(node)
	}
	return n
}

func nodePtr(n gedcom.Node) unsafe.Pointer {
	type iface struct{ typ, data unsafe.Pointer }
	return (*iface)(unsafe.Pointer(&n)).data
}

// ---------------------------------------------------------------------------
// simulator configuration swarm

func parseToday(s string) time.Time {
	if s == "" {
		return time.Time{}
	}
	t, err := time.Parse("2006-01-02", s)
	if err != nil {
		return time.Time{}
	}
	return t
}

// GenSim draws a scheduler configuration (swarm style: every run uses a
// different mix of schedule mode, preemption rate and seams).
func GenSim(r *rand.Rand) simrt.Config {
	c := simrt.Config{Seed: r.Uint64()}
	switch r.IntN(10) {
	case 0:
		c.Mode = "default"
	case 1, 2, 3:
		c.Mode = "pct"
		c.PCTDepth = r.IntN(4)
		c.PCTHorizon = int64(50 + r.IntN(800))
	default:
		c.Mode = "random"
		c.PreemptProb = pick(r, []float64{0, 0.01, 0.1, 0.1, 0.3, 0.5})
	}
	if c.Mode != "default" {
		c.PointGap = pick(r, []int64{0, 0, 20, 200, 2000})
		c.SelectRandom = r.IntN(3) > 0
		c.ClockProb = pick(r, []float64{0, 0, 0.02, 0.2})
	}
	if c.PointGap > 0 && r.IntN(4) == 0 {
		c.StallSteps = pick(r, []int64{5, 10, 30, 100})
	}
	c.MapOrder = pick(r, []string{"identity", "reverse", "shuffle", "shuffle"})
	c.MapSeed = r.Uint64()
	if r.IntN(3) == 0 {
		c.ChanCaps = "small"
		c.ChanSeed = r.Uint64()
	}
	return c
}

// ---------------------------------------------------------------------------
// race reports

var raceLogPath string
var raceLogOff int64

func initRaceLog() {
	// GORACE=log_path=<prefix> makes the runtime write to <prefix>.<pid>
	for _, kv := range strings.Fields(os.Getenv("GORACE")) {
		if strings.HasPrefix(kv, "log_path=") {
			raceLogPath = fmt.Sprintf("%s.%d", strings.TrimPrefix(kv, "log_path="), os.Getpid())
		}
	}
}

type raceMark struct {
	errs int
	off  int64
}

func raceBegin() raceMark {
	m := raceMark{errs: simrt.RaceErrors()}
	if raceLogPath != "" {
		if st, err := os.Stat(raceLogPath); err == nil {
			m.off = st.Size()
		}
	}
	return m
}

var raceFrameRe = regexp.MustCompile(`(?m)^  (\S+)\(\)$`)

// raceEnd returns the signatures of the race reports printed since the mark.
// A signature is the unordered pair of the innermost library functions of the
// two conflicting accesses (closure suffixes and package path stripped).
func raceEnd(m raceMark, atEnd int) (n int, sigs []string, texts map[string]string) {
	// only reports printed while the run was under the scheduler's control
	n = atEnd - m.errs
	if n <= 0 {
		return 0, nil, nil
	}
	text := ""
	if raceLogPath != "" {
		if b, err := os.ReadFile(raceLogPath); err == nil && int64(len(b)) > m.off {
			text = string(b[m.off:])
		}
	}
	texts = map[string]string{}
	seen := 0
	for _, rep := range strings.Split(text, "WARNING: DATA RACE") {
		if !strings.Contains(rep, " by goroutine ") {
			continue
		}
		seen++
		if seen > n {
			break
		}
		// two access stacks: first block and the "Previous ..." block
		parts := strings.SplitN(rep, "\n\nPrevious ", 2)
		var fns []string
		for _, p := range parts {
			if i := strings.Index(p, "\n\nGoroutine "); i >= 0 {
				p = p[:i]
			}
			fns = append(fns, innermostLibraryFunc(p))
		}
		for len(fns) < 2 {
			fns = append(fns, "?")
		}
		sort.Strings(fns)
		sig := fns[0] + " x " + fns[1]
		if _, ok := texts[sig]; !ok {
			texts[sig] = "WARNING: DATA RACE" + rep
			sigs = append(sigs, sig)
		}
	}
	if len(sigs) == 0 {
		sigs = []string{"unparsed race report"}
		texts[sigs[0]] = text
	}
	sort.Strings(sigs)
	return n, sigs, texts
}

var closureRe = regexp.MustCompile(`(\.func\d+|\.\d+|\.gowrap\d+|\.deferwrap\d+)+$`)

func innermostLibraryFunc(stack string) string {
	for _, m := range raceFrameRe.FindAllStringSubmatch(stack, -1) {
		fn := m[1]
		if !strings.Contains(fn, "github.com/elliotchance/gedcom/") {
			continue
		}
		i := strings.LastIndex(fn, "/")
		fn = fn[i+1:]
		fn = closureRe.ReplaceAllString(fn, "")
		return fn
	}
	return "?"
}

// runSim runs one simulated workload and folds its statistics and its race
// reports into the case result.
func runSim(t *testing.T, cr *CaseResult, prop string, cfg simrt.Config, root func()) (simrt.Result, []string) {
	m := raceBegin()
	res := simrt.Run(t, cfg, root)
	cr.absorb(&res)
	n, sigs, texts := raceEnd(m, res.RaceAtEnd)
	if n > 0 {
		cr.count("race_reports", int64(n))
		for _, s := range sigs {
			cr.violate(prop+"/race", "race "+s, texts[s])
		}
	}
	if res.BubblePanic != "" {
		cr.observe("bubble panic: " + res.BubblePanic)
	}
	return res, sigs
}

func topLibraryFrame(stack string) string {
	lines := strings.Split(stack, "\n")
	for _, l := range lines {
		l = strings.TrimSpace(l)
		if strings.HasPrefix(l, "github.com/elliotchance/gedcom/") {
			fn := l
			if i := strings.LastIndex(fn, "("); i > 0 {
				fn = fn[:i]
			}
			i := strings.LastIndex(fn, "/")
			fn = fn[i+1:]
			fn = closureRe.ReplaceAllString(fn, "")
			return fn
		}
	}
	return "?"
}

var digitsRe = regexp.MustCompile(`\d+`)

// crashSignature: (panic value with numbers abstracted, top library frame).
func crashSignature(c *simrt.CrashInfo) string {
	v := c.Value
	if len(v) > 120 {
		v = v[:120]
	}
	v = digitsRe.ReplaceAllString(v, "N")
	return fmt.Sprintf("panic %q at %s", v, topLibraryFrame(c.Stack))
}
