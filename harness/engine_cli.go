package harness

// The gedcom command itself under the scheduler (C11 "through gedcom diff
// -jobs N", C14 "every command-line operation").
//
// cmd/gedcom is package main and cannot be imported. The build step copies it
// into the scratch tree as package cmdsim (lib/mkcmdsim.py: main() becomes
// Main(), the log package becomes cmdsim/simlog whose Fatal* panic with
// simlog.Exit instead of ending the process) and the instrumenter treats it
// like every other package, so its goroutines, channels and the order in
// which it waits for them are the command's own and are scheduled by the
// simulator. Files are real files in a temporary directory, os.Args,
// flag.CommandLine and os.Stdout are set per run.

import (
	"bytes"
	"flag"
	"io"
	"os"
	"path/filepath"
	"sort"
	"strings"
	"testing"

	gedcom "github.com/elliotchance/gedcom/v39"
	"github.com/elliotchance/gedcom/v39/cmdsim"
	"github.com/elliotchance/gedcom/v39/cmdsim/simlog"
	"github.com/elliotchance/gedcom/v39/cmdsim/simsignal"
	"github.com/elliotchance/gedcom/v39/html"
	"simrt"
)

type cliRun struct {
	res    simrt.Result
	exit   *simlog.Exit // the command ended through fatalln/log.Fatal
	stdout []byte
	files  map[string][]byte // what it left in $OUT
}

// runCLI runs "gedcom <args>" with $0, $1 .. replaced by the paths of the
// documents and $OUT by an empty output directory.
func runCLI(t *testing.T, cr *CaseResult, prop string, docs []string, args []string, sim simrt.Config, today string) (*cliRun, bool) {
	dir, err := os.MkdirTemp("", "verif-cli-")
	if err != nil {
		return nil, false
	}
	defer os.RemoveAll(dir)
	out := filepath.Join(dir, "out")
	if err := os.Mkdir(out, 0o755); err != nil {
		return nil, false
	}
	var paths []string
	for i, text := range docs {
		p := filepath.Join(dir, "in"+itoa(i)+".ged")
		if err := os.WriteFile(p, []byte(text), 0o644); err != nil {
			return nil, false
		}
		paths = append(paths, p)
	}
	argv := []string{"gedcom"}
	for _, a := range args {
		a = strings.ReplaceAll(a, "$OUT", out)
		for i, p := range paths {
			if a == "$"+itoa(i) {
				a = p
			}
		}
		argv = append(argv, a)
	}
	stdoutPath := filepath.Join(dir, "stdout")
	stdout, err := os.Create(stdoutPath)
	if err != nil {
		return nil, false
	}

	sim.Today = parseToday(today)
	sim.StopAtRootReturn = true // the process ends when main returns
	// the command decodes its files itself, so its nodes have no labels:
	// pointer-keyed maps (Document.Places) are ordered by content
	sim.KeyFn = func(k, v interface{}) (string, bool) {
		describe := func(x interface{}) (string, bool) {
			n, ok := x.(gedcom.Node)
			if !ok || gedcom.IsNil(n) {
				return "", false
			}
			key := n.Tag().String() + "|" + n.Pointer() + "|" + n.Value()
			for _, c := range n.Nodes() {
				key += "|" + c.Tag().String() + " " + c.Value()
			}
			return key, true
		}
		key, ok := describe(k)
		if !ok {
			return "", false
		}
		// (Document.Places maps a place to the event it belongs to)
		if vk, ok := describe(v); ok {
			key += " <- " + vk
		}
		return key, true
	}
	run := &cliRun{files: map[string][]byte{}}

	oldArgs, oldFlags, oldStdout := os.Args, flag.CommandLine, os.Stdout
	os.Args = argv
	flag.CommandLine = flag.NewFlagSet("gedcom", flag.ContinueOnError)
	flag.CommandLine.SetOutput(io.Discard)
	flag.CommandLine.Usage = func() {}
	os.Stdout = stdout
	simlog.Out = io.Discard
	simsignal.Registered = nil
	run.res, _ = runSim(t, cr, prop, sim, func() {
		defer func() {
			if r := recover(); r != nil {
				if e, ok := r.(simlog.Exit); ok {
					run.exit = &e
					return
				}
				panic(r)
			}
		}()
		cmdsim.Main()
	})
	os.Args, flag.CommandLine, os.Stdout = oldArgs, oldFlags, oldStdout
	stdout.Close()
	run.stdout, _ = os.ReadFile(stdoutPath)
	entries, _ := os.ReadDir(out)
	for _, e := range entries {
		if b, err := os.ReadFile(filepath.Join(out, e.Name())); err == nil {
			run.files[e.Name()] = b
		}
	}
	cr.count("cli.commands_run", 1)
	if run.exit != nil {
		cr.count("cli.ended_with_error_message", 1)
	}
	return run, true
}

const exitPanicPrefix = "simlog.Exit code="

// cliOutcome: a command may finish or end with an error message (from any of
// its goroutines); it may not panic, hang or run away.
func cliOutcome(cr *CaseResult, prop string, run *cliRun, what string) bool {
	res := &run.res
	if res.Outcome == "crash" && res.Crash != nil && strings.HasPrefix(res.Crash.Value, exitPanicPrefix) {
		// log.Fatal in a goroutine of the command: the process ends with a message
		cr.count("cli.ended_with_error_message", 1)
		return false
	}
	return outcomeViolation(cr, prop, res, what)
}

func itoa(i int) string {
	if i == 0 {
		return "0"
	}
	neg := i < 0
	if neg {
		i = -i
	}
	var b []byte
	for i > 0 {
		b = append([]byte{byte('0' + i%10)}, b...)
		i /= 10
	}
	if neg {
		return "-" + string(b)
	}
	return string(b)
}

func ftoa(f float64) string {
	switch f {
	case 0:
		return "0"
	case 1:
		return "1"
	}
	// one decimal is all the generators use
	n := int(f*1000 + 0.5)
	s := itoa(n)
	for len(s) < 4 {
		s = "0" + s
	}
	return s[:len(s)-3] + "." + s[len(s)-3:]
}

// diffArgs: the command line for "gedcom diff" that corresponds to cfg.
func diffArgs(cfg *CompareCfg) []string {
	a := []string{"diff", "-left-gedcom", "$0", "-right-gedcom", "$1", "-output", "$OUT/diff.html", "-jobs", itoa(cfg.Jobs)}
	if cfg.MinWS >= 0 {
		a = append(a, "-minimum-weighted-similarity", ftoa(cfg.MinWS))
	}
	if cfg.PreferPtr >= 0 {
		a = append(a, "-prefer-pointer-above", ftoa(cfg.PreferPtr))
	}
	show, sort := cfg.DiffShow, cfg.DiffSort
	switch cfg.FlagCase {
	case 1:
		if sort == "" {
			sort = "written-name"
		}
		sort = strings.ToUpper(sort[:1]) + sort[1:]
		if i := strings.Index(sort, "-"); i > 0 && i+1 < len(sort) {
			sort = sort[:i+1] + strings.ToUpper(sort[i+1:i+2]) + sort[i+2:]
		}
	case 2:
		if show == "" {
			show = "all"
		}
		show = strings.ToUpper(show)
	case 3:
		sort = "by-shoe-size"
	}
	if show != "" {
		a = append(a, "-show", show)
	}
	if sort != "" {
		a = append(a, "-sort", sort)
	}
	return a
}

func publishArgs(cfg *PublishCfg) []string {
	a := []string{"publish", "-gedcom", "$0", "-output-dir", "$OUT", "-living", cfg.Options.Visibility, "-jobs", itoa(cfg.Jobs)}
	o := cfg.Options
	for _, f := range []struct {
		on   bool
		flag string
	}{{o.Individuals, "-no-individuals"}, {o.Places, "-no-places"}, {o.Families, "-no-families"},
		{o.Surnames, "-no-surnames"}, {o.Sources, "-no-sources"}, {o.Statistics, "-no-statistics"}} {
		if !f.on {
			a = append(a, f.flag)
		}
	}
	return a
}

// runDiffCLI is the C11 variant: the diff command with the case's two
// documents. Oracles: no data race (runSim), no crash, no hang, and the page
// it leaves behind is a complete page.
func runDiffCLI(t *testing.T, c *Case, cr *CaseResult) *CaseResult {
	run, ok := runCLI(t, cr, c.Prop, c.Docs, diffArgs(c.Compare), c.Sim, c.Today)
	if !ok {
		return cr
	}
	cr.Valid = true
	cr.NonTrivial = true
	cr.Recorded = &run.res.Recorded
	cr.Trace = run.res.Trace
	cr.Probes["via=cli"]++
	if c.Compare.Jobs > 1 {
		cr.Probes["jobs>1"]++
	}
	if run.res.Outcome == "crash" && !strings.HasPrefix(run.res.Crash.Value, exitPanicPrefix) {
		cr.Masked = "crash"
		cr.violate(c.Prop+"/crash", "gedcom diff: "+crashSignature(run.res.Crash), run.res.Crash.Value+"\n"+run.res.Crash.Stack)
		return cr
	}
	if cliOutcome(cr, c.Prop, run, "gedcom diff") {
		return cr
	}
	if c.Compare.FlagCase != 0 && run.exit == nil && !(run.res.Outcome == "crash") {
		cr.violate(c.Prop+"/cli-output", "gedcom diff accepts a flag value it does not document", strings.Join(diffArgs(c.Compare), " "))
	}
	if run.exit == nil && run.res.Outcome == "completed" {
		page := string(run.files["diff.html"])
		if !strings.Contains(page, "</html>") {
			cr.violate(c.Prop+"/cli-output", "gedcom diff finished without a complete page", page)
			return cr
		}
		// the command is a front end: for the same files and thresholds its
		// page is the page the library produces (judged when the matching is
		// unambiguous - no two candidate pairs tie)
		ref := newCompareReference(c, c.Compare)
		probe := &CaseResult{Prop: c.Prop, Probes: map[string]int64{}, Counters: map[string]int64{}}
		if !ref.ambiguous(probe) {
			want, ok := libraryDiffPage(t, cr, c)
			if ok {
				cr.Probes["cli_page_compared_with_library"]++
				// (the order of rows that tie in the sort key - all unmatched
				// rows, equal names - follows the order in which Compare
				// delivered them, which is not part of the property: the
				// pages are compared as multisets of rows and cards)
				if pagePieces(string(want)) != pagePieces(page) {
					cr.violate(c.Prop+"/cli-output", "the page of gedcom diff differs from the library's page for the same files and options",
						"command line: "+strings.Join(diffArgs(c.Compare), " ")+"\n"+piecesDiff(page, string(want)))
				}
			}
		}
	}
	return cr
}

// libraryDiffPage renders the page for the case's files and options by calling
// the library the way the documentation of the diff command describes it:
// thresholds from the flags (library defaults where a flag is absent), jobs,
// -show and -sort, everybody shown. Sequential default schedule.
func libraryDiffPage(t *testing.T, cr *CaseResult, c *Case) ([]byte, bool) {
	ld, err1 := decode(c.Docs[0])
	rd, err2 := decode(c.Docs[1])
	if err1 != nil || err2 != nil {
		return nil, false
	}
	cfg := c.Compare
	var buf bytes.Buffer
	// the documented defaults of the filter flags (name format and so on)
	oldFlags := flag.CommandLine
	flag.CommandLine = flag.NewFlagSet("defaults", flag.ContinueOnError)
	ff := &gedcom.FilterFlags{}
	ff.SetupCLI()
	flag.CommandLine.Parse(nil)
	flag.CommandLine = oldFlags
	sub := &CaseResult{Prop: c.Prop, Probes: map[string]int64{}, Counters: map[string]int64{}}
	res, _ := runSim(t, sub, c.Prop, simrt.Config{Mode: "default", MapOrder: "identity", Today: parseToday(c.Today)}, func() {
		so := gedcom.NewSimilarityOptions()
		so.MinimumWeightedSimilarity = gedcom.DefaultMinimumSimilarity
		so.PreferPointerAbove = gedcom.DefaultMinimumSimilarity
		so.MinimumSimilarity = gedcom.DefaultMinimumSimilarity
		if cfg.MinWS >= 0 {
			so.MinimumWeightedSimilarity = cfg.MinWS
		}
		if cfg.PreferPtr >= 0 {
			so.PreferPointerAbove = cfg.PreferPtr
		}
		o := gedcom.NewIndividualNodesCompareOptions()
		o.SimilarityOptions = so
		o.Jobs = 1
		cmp := ld.Individuals().Compare(rd.Individuals(), o)
		show, sort := cfg.DiffShow, cfg.DiffSort
		if show == "" {
			show = html.DiffPageShowAll
		}
		if sort == "" {
			sort = html.DiffPageSortWrittenName
		}
		progress := make(chan gedcom.Progress)
		done := make(chan struct{})
		simrt.Go("harness:libpage.progress", func() {
			for {
				simrt.Yield("harness:libpage.recv")
				_, ok := <-progress
				if !ok {
					close(done)
					return
				}
			}
		})
		html.NewDiffPage(cmp, ff, "", show, sort, progress, o, html.LivingVisibilityShow).WriteHTMLTo(&buf)
		simrt.Yield("harness:libpage.close")
		close(progress)
		simrt.Yield("harness:libpage.done")
		<-done
	})
	cr.Runs++
	if res.Outcome != "completed" {
		return nil, false
	}
	return buf.Bytes(), true
}

// pagePieces cuts a diff page at the starts of table rows and cards and sorts
// the pieces.
func pagePieces(page string) string {
	page = strings.ReplaceAll(page, "<tr", "\x00<tr")
	// (what follows the last row of a table is a piece of its own: which row
	// is the last one is part of the order)
	page = strings.ReplaceAll(page, "</tr>", "</tr>\x00")
	page = strings.ReplaceAll(page, "<a name=", "\x00<a name=")
	page = strings.ReplaceAll(page, "<div class=\"card\">", "\x00<div class=\"card\">")
	pieces := strings.Split(page, "\x00")
	sort.Strings(pieces)
	return strings.Join(pieces, "\n")
}

func piecesDiff(got, want string) string {
	count := map[string]int{}
	for _, p := range strings.Split(pagePieces(got), "\n") {
		count[p]++
	}
	for _, p := range strings.Split(pagePieces(want), "\n") {
		count[p]--
	}
	var out []string
	for p, n := range count {
		if n > 0 {
			out = append(out, "only in the command's page: "+clip(p, 300))
		} else if n < 0 {
			out = append(out, "only in the library's page: "+clip(p, 300))
		}
	}
	sort.Strings(out)
	if len(out) > 6 {
		out = out[:6]
	}
	return strings.Join(out, "\n")
}
