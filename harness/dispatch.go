package harness

import (
	"testing"
)

// caseSeed derives the per-case seed from (VERIF_SEED, property, index).
func caseSeed(base uint64, prop string, idx int) uint64 {
	h := base*0x9e3779b97f4a7c15 + 0x632be59bd9b4e019
	for i := 0; i < len(prop); i++ {
		h = (h ^ uint64(prop[i])) * 0x100000001b3
	}
	h ^= uint64(idx+1) * 0xd6e8feb86659fd93
	h ^= h >> 32
	h *= 0xd6e8feb86659fd93
	h ^= h >> 32
	return h
}

// GenCase expands (property, tier, base seed, index) into a concrete case.
func GenCase(prop, tier string, base uint64, idx int) *Case {
	seed := caseSeed(base, prop, idx)
	r := NewRand(seed)
	var c *Case
	switch prop {
	case "C11":
		c = genCompareCase(prop, tier, r)
	case "C19":
		c = genPublishCase(prop, tier, r)
	case "C17":
		c = genLivingCase(prop, tier, r)
	case "C14":
		c = genCommandCase(prop, tier, r)
	case "C13":
		c = genHistoryCase(prop, tier, r)
	case "C01":
		c = genRoundTripCase(prop, tier, r)
	case "C02":
		c = genStructureCase(prop, tier, r)
	case "C03":
		c = genTotalityCase(prop, tier, r)
	default:
		return nil
	}
	switch prop {
	case "C11", "C13", "C14", "C17", "C19":
		// drawn from a separate stream so that the cases stay what they were
		c.GoMaxProcs = pick(NewRand(seed^0x60a), []int{0, 0, 1, 2, 16})
	}
	c.Seed = seed
	c.Idx = idx
	return c
}

// RunCase dispatches on the engine.
func RunCase(t *testing.T, c *Case) *CaseResult {
	switch c.Engine {
	case "compare":
		return runCompareCase(t, c)
	case "publish":
		return runPublishCase(t, c)
	case "commands":
		return runCommandCase(t, c)
	case "stream":
		return runStreamCase(t, c)
	case "history":
		return runHistoryCase(t, c)
	}
	cr := &CaseResult{Prop: c.Prop}
	cr.violate(c.Prop+"/harness", "unknown engine "+c.Engine, "")
	return cr
}

func sampleOf(c *Case) interface{} {
	return c
}
