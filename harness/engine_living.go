package harness

// C17: published sites reveal nothing about living people (DESIGN.md §5 C17).
// Same publish harness as C19; what makes it a simulation target is that the
// result must hold for every jobs value and schedule, depends on the clock
// (living by the age rule) and on process history.

import (
	"bytes"
	"fmt"
	"github.com/elliotchance/gedcom/v39/html"
	"math/rand/v2"
	"sort"
	"strings"
	"testing"

	"simrt"
)

type tokPerson struct {
	p       *Person
	living  bool
	role    string
	given   []string
	surname []string
	place   string
	year    int
	// noSurname: the primary name is a given name only
	noSurname bool
	// directPlace: the record carries "1 PLAC <place>" itself
	directPlace bool
	// variantOf: the events use a different spelling of this dead person's
	// place (same page key)
	variantOf string
}

func newTok(r *rand.Rand, n *int) string {
	*n++
	return fmt.Sprintf("%cq%04dz", 'A'+rune(r.IntN(26)), *n)
}

func todayYear(today string) int {
	if t := parseToday(today); !t.IsZero() {
		return t.Year()
	}
	return 2000
}

// genLivingCase builds a document in which every private string of every
// individual is a unique marker token, with living people in every role.
func genLivingCase(prop, tier string, r *rand.Rand) *Case {
	today := pick(r, []string{"", "2000-06-15", "2000-12-31", "2025-03-01"})
	ty := todayYear(today)
	maxN := 8
	if tier == "thorough" {
		maxN = 14
		if r.IntN(30) == 0 {
			maxN = 36
		}
	}
	n := 1 + r.IntN(maxN)
	nt := 0
	maxAgeZero := r.IntN(6) == 0 // Document.MaxLivingAge = 0: nobody is dead without a death event
	var people []*tokPerson
	exactDate := func(y int) string {
		return fmt.Sprintf("%d %s %d", 1+r.IntN(28), pick(r, months), y)
	}
	for i := 0; i < n; i++ {
		tp := &tokPerson{p: &Person{Ptr: fmt.Sprintf("I%d", i+1)}}
		nn := 1 + r.IntN(2)
		if r.IntN(5) == 0 {
			nn = 3
		}
		for k := 0; k < nn; k++ {
			g, s := newTok(r, &nt), newTok(r, &nt)
			if k > 0 && r.IntN(2) == 0 {
				s = tp.surname[0] // alternative name with the same surname
			}
			tp.given = append(tp.given, g)
			tp.surname = append(tp.surname, s)
			name := g + " /" + s + "/"
			if k == 0 && r.IntN(8) == 0 {
				// a given name only (the surname token stays unused)
				name = g
				tp.noSurname = true
			}
			if r.IntN(5) == 0 && !tp.noSurname {
				// a name suffix is part of the full name; it is tracked like
				// a given name
				sfx := newTok(r, &nt)
				name += " " + sfx
				tp.given = append(tp.given, sfx)
				tp.surname = append(tp.surname, s)
			}
			tp.p.Names = append(tp.p.Names, name)
		}
		tp.p.Sex = pick(r, []string{"M", "F", "U", ""})
		tp.place = newTok(r, &nt) + "town, " + pick(r, []string{"England", "Australia", "Narnia"})
		// roles
		switch r.IntN(9) {
		case 0, 1: // dead by death event
			tp.role = "dead-by-death"
			tp.year = ty - 150 + r.IntN(100)
			tp.p.Events = append(tp.p.Events, Event{Tag: "BIRT", Date: exactDate(tp.year), Place: tp.place})
			tp.p.Events = append(tp.p.Events, Event{Tag: "DEAT", Date: exactDate(tp.year + 40), Place: tp.place})
		case 2: // dead by death event without any date
			if r.IntN(2) == 0 {
				// died young: without the death event the age rule would
				// make them living
				tp.role = "dead-young"
				tp.year = ty - 40 - r.IntN(30)
				tp.p.Events = append(tp.p.Events, Event{Tag: "BIRT", Date: exactDate(tp.year), Place: tp.place},
					Event{Tag: "DEAT", Date: exactDate(tp.year + 5), Place: tp.place})
				break
			}
			tp.role = "dead-by-empty-death"
			tp.year = ty - 30
			tp.p.Events = append(tp.p.Events, Event{Tag: "BIRT", Date: exactDate(tp.year)}, Event{Tag: "DEAT"})
		case 3: // dead by the age rule (living when the age rule is switched off)
			tp.role = "dead-by-age"
			tp.living = maxAgeZero
			tp.year = ty - 120 - r.IntN(100)
			if r.IntN(3) == 0 {
				// long dead: born three to nine centuries ago (ages beyond
				// what a time.Duration can hold)
				tp.year = ty - 300 - r.IntN(600)
			}
			if r.IntN(3) == 0 {
				// no birth on record, only the baptism (a parish register)
				tp.role = "dead-by-age-baptism-only"
				tp.p.Events = append(tp.p.Events, Event{Tag: "BAPM", Date: exactDate(tp.year), Place: tp.place})
				break
			}
			tp.p.Events = append(tp.p.Events, Event{Tag: "BIRT", Date: exactDate(tp.year), Place: tp.place})
		case 4: // living by the age rule
			tp.role = "living-by-age"
			tp.living = true
			tp.year = ty - 5 - r.IntN(76)
			tp.p.Events = append(tp.p.Events, Event{Tag: "BIRT", Date: exactDate(tp.year), Place: tp.place})
		case 5: // living: no date at all
			if r.IntN(3) == 0 {
				// living by a birth date RANGE: it starts more than 100 years
				// ago but its midpoint (which is what counts) is 85-95 years ago
				tp.role = "living-by-range-midpoint"
				tp.living = true
				mid := ty - 85 - r.IntN(11)
				half := 20 + r.IntN(10)
				tp.year = mid
				tp.p.Events = append(tp.p.Events, Event{Tag: pick(r, []string{"BIRT", "BAPM"}),
					Date: fmt.Sprintf("%s %d and %d", pick(r, []string{"Between", "Bet.", "From"}), mid-half, mid+half), Place: tp.place})
				if strings.HasPrefix(tp.p.Events[len(tp.p.Events)-1].Date, "From") {
					tp.p.Events[len(tp.p.Events)-1].Date = fmt.Sprintf("From %d to %d", mid-half, mid+half)
				}
				break
			}
			if r.IntN(3) == 0 {
				// living: there is a birth date, but nothing a year can be
				// read from (what exporters write for people who are alive)
				tp.role = "living-birth-date-says-nothing"
				tp.living = true
				tp.p.Events = append(tp.p.Events, Event{Tag: "BIRT", Date: pick(r, []string{"PRIVATE", "Living", "(unknown)", "unknown", "(still alive)", "?"}), Place: tp.place})
				break
			}
			tp.role = "living-no-dates"
			tp.living = true
		case 6: // living with a burial but no death
			tp.role = "living-burial-no-death"
			tp.living = true
			tp.year = ty - 5 - r.IntN(76)
			tp.p.Events = append(tp.p.Events, Event{Tag: "BIRT", Date: exactDate(tp.year), Place: tp.place},
				Event{Tag: "BURI", Date: exactDate(tp.year + 3), Place: tp.place})
		case 7: // living, baptism only
			tp.role = "living-baptism-only"
			tp.living = true
			tp.year = ty - 5 - r.IntN(76)
			tp.p.Events = append(tp.p.Events, Event{Tag: "BAPM", Date: exactDate(tp.year), Place: tp.place})
		default: // living with residence
			tp.role = "living-with-residence"
			tp.living = true
			tp.year = ty - 20 - r.IntN(60)
			tp.p.Events = append(tp.p.Events, Event{Tag: "BIRT", Date: exactDate(tp.year)},
				Event{Tag: "RESI", Date: exactDate(tp.year + 10), Place: tp.place})
		}
		// a place directly under the individual
		if r.IntN(6) == 0 {
			tp.p.Lines = append(tp.p.Lines, "1 PLAC "+tp.place)
			tp.directPlace = true
		}
		// an attribute with its own date and place
		if r.IntN(4) == 0 {
			y := tp.year
			if y == 0 {
				y = ty - 30
			}
			tp.p.Events = append(tp.p.Events, Event{Tag: pick(r, []string{"OCCU", "EDUC", "RELI"}), Date: exactDate(y + 1), Place: tp.place})
		}
		people = append(people, tp)
	}
	// sharing: a living person shares a surname or a place with a dead person
	for _, tp := range people {
		if !tp.living || r.IntN(4) != 0 {
			continue
		}
		var dead []*tokPerson
		for _, q := range people {
			if !q.living {
				dead = append(dead, q)
			}
		}
		if len(dead) == 0 {
			break
		}
		d := pick(r, dead)
		if r.IntN(2) == 0 && !tp.noSurname && !d.noSurname {
			tp.surname[0] = d.surname[0]
			tp.p.Names[0] = tp.given[0] + " /" + tp.surname[0] + "/"
			tp.role += "+shared-surname"
		} else if len(tp.p.Events) > 0 && d.place != "" {
			pl := d.place
			if r.IntN(2) == 0 {
				// the same place in another spelling (same page key): the
				// spelling is the living person's data
				pl = strings.ToUpper(d.place)
				tp.variantOf = d.place
				tp.role += "+variant-spelling-of-shared-place"
			} else {
				tp.role += "+shared-place"
			}
			for k := range tp.p.Events {
				if tp.p.Events[k].Place != "" {
					tp.p.Events[k].Place = pl
				}
			}
			if tp.directPlace {
				for k, l := range tp.p.Lines {
					if strings.HasPrefix(l, "1 PLAC ") {
						tp.p.Lines[k] = "1 PLAC " + pl
					}
				}
			}
			tp.place = pl
		}
	}
	g := &Graph{Head: true, Trailer: true}
	for _, tp := range people {
		g.People = append(g.People, tp.p)
	}
	// families: living people as child, spouse and parent
	nf := r.IntN(n/2 + 2)
	for i := 0; i < nf; i++ {
		f := &Family{Ptr: fmt.Sprintf("F%d", i+1)}
		f.Husb = pick(r, g.People).Ptr
		if w := pick(r, g.People).Ptr; w != f.Husb {
			f.Wife = w
		}
		if r.IntN(5) == 0 {
			// a single parent
			if f.Wife != "" && r.IntN(2) == 0 {
				f.Husb = ""
			} else {
				f.Wife = ""
			}
		}
		for c := r.IntN(3); c > 0; c-- {
			ch := pick(r, g.People).Ptr
			if ch != f.Husb && ch != f.Wife && !containsStr(f.Chil, ch) {
				f.Chil = append(f.Chil, ch)
			}
		}
		if r.IntN(3) == 0 {
			f.Events = append(f.Events, Event{Tag: "MARR", Date: exactDate(ty - 130), Place: "Oldtown, England"})
		}
		g.Families = append(g.Families, f)
	}
	if r.IntN(2) == 0 {
		g.Sources = append(g.Sources, &Source{Ptr: "S1", Title: "Parish register"})
	}

	// D': the same document with the private data of living people replaced
	g2 := g.Clone()
	repl := map[string]string{}
	placeRepl := map[string]string{}
	private := privateTokens(people)
	var privList []string
	for tok := range private {
		privList = append(privList, tok)
	}
	sort.Strings(privList) // the PRNG must never be drawn in map order
	for _, tok := range privList {
		repl[tok] = newTok(r, &nt)
	}
	for i, tp := range people {
		if !tp.living {
			continue
		}
		p2 := g2.People[i]
		for k := range p2.Names {
			for _, old := range privList {
				p2.Names[k] = strings.ReplaceAll(p2.Names[k], old, repl[old])
			}
		}
		// a name that a living person shares with a dead one is the living
		// person's data all the same: in D' the living person gets another
		// one, the dead person keeps it
		for _, tok := range append(append([]string(nil), tp.given...), tp.surname...) {
			if private[tok] {
				continue
			}
			nw := newTok(r, &nt)
			for k := range p2.Names {
				p2.Names[k] = strings.ReplaceAll(p2.Names[k], tok, nw)
			}
		}
		if tp.variantOf != "" {
			// another spelling with the same page key
			alt := strings.ReplaceAll(strings.ToLower(tp.variantOf), ",", ";")
			for k := range p2.Events {
				if p2.Events[k].Place != "" {
					p2.Events[k].Place = alt
				}
			}
			for k, l := range p2.Lines {
				if strings.HasPrefix(l, "1 PLAC ") {
					p2.Lines[k] = "1 PLAC " + alt
				}
			}
		}
		for k := range p2.Events {
			if p2.Events[k].Date != "" {
				// another date that keeps the person clearly living
				p2.Events[k].Date = exactDate(ty - 5 - r.IntN(76))
			}
			if p2.Events[k].Place != "" && tp.variantOf == "" {
				shared := false
				for _, q := range people {
					if !q.living && q.place == p2.Events[k].Place {
						shared = true
					}
				}
				if !shared {
					old := p2.Events[k].Place
					if _, ok := placeRepl[old]; !ok {
						placeRepl[old] = newTok(r, &nt) + "ville, " + pick(r, []string{"England", "Australia", "Narnia"})
					}
					p2.Events[k].Place = placeRepl[old]
				}
			}
		}
		for k, l := range p2.Lines {
			if strings.HasPrefix(l, "1 PLAC ") {
				if nw, ok := placeRepl[strings.TrimPrefix(l, "1 PLAC ")]; ok {
					p2.Lines[k] = "1 PLAC " + nw
				} else if tp.variantOf == "" {
					shared := false
					for _, q := range people {
						if !q.living && q.place == strings.TrimPrefix(l, "1 PLAC ") {
							shared = true
						}
					}
					if !shared {
						placeRepl[strings.TrimPrefix(l, "1 PLAC ")] = newTok(r, &nt) + "ville, Narnia"
						p2.Lines[k] = "1 PLAC " + placeRepl[strings.TrimPrefix(l, "1 PLAC ")]
					}
				}
			}
		}
	}

	livingPtr := map[string]bool{}
	for _, tp := range people {
		if tp.living {
			livingPtr[tp.p.Ptr] = true
		}
	}
	for fi, f := range g.Families {
		if (f.Husb == "") != (f.Wife == "") && (livingPtr[f.Husb] || livingPtr[f.Wife]) && r.IntN(2) == 0 {
			// a family with one partner, who is living: its events are
			// personal data of that person just the same
			mt := newTok(r, &nt)
			tag := pick(r, []string{"MARR", "MARR", "CENS", "EVEN"})
			g.Families[fi].Events = []Event{{Tag: tag, Date: exactDate(ty - 9), Place: mt + "hall, England"}}
			g2.Families[fi].Events = []Event{{Tag: tag, Date: exactDate(ty - 14), Place: newTok(r, &nt) + "court, England"}}
			continue
		}
		if f.Husb != "" && f.Wife != "" && livingPtr[f.Husb] && livingPtr[f.Wife] && r.IntN(2) == 0 {
			// the marriage of two living people is their personal data
			mt := newTok(r, &nt)
			g.Families[fi].Events = []Event{{Tag: "MARR", Date: exactDate(ty - 10), Place: mt + "church, England"}}
			g2.Families[fi].Events = []Event{{Tag: "MARR", Date: exactDate(ty - 12), Place: newTok(r, &nt) + "chapel, England"}}
		}
	}
	c := &Case{Prop: prop, Engine: "publish", Docs: []string{g.Text(), g2.Text()}, Today: today}
	if r.IntN(4) == 0 {
		// files from programs that pad their lines with blanks
		every := 2 + r.IntN(3)
		c.Docs = []string{padText(c.Docs[0], every), padText(c.Docs[1], every)}
	}
	cfg := &PublishCfg{Options: genPubOptions(r, []string{"hide", "placeholder"}), Jobs: pick(r, []int{1, 1, 2, 8})}
	cfg.Options.MaxLivingAgeZero = maxAgeZero
	if r.IntN(12) == 0 {
		v := cfg.Options.Visibility
		cfg.Options.Spelling = pick(r, []string{strings.ToUpper(v[:1]) + v[1:], strings.ToUpper(v), v + " ", " " + v})
	}
	for _, tp := range people {
		li := LivingInfo{Ptr: tp.p.Ptr, Living: tp.living}
		for k := range tp.given {
			li.Names = append(li.Names, tp.given[k], tp.surname[k])
		}
		for _, tok := range li.Names {
			if private[tok] {
				li.Tokens = append(li.Tokens, tok)
			}
		}
		cfg.People = append(cfg.People, li)
	}
	editedAfter := false
	// history: nothing, the same document with "show", or the D' document
	v := PubVariant{Jobs: pick(r, []int{1, 2, 8}), Sim: GenSim(r), Prior: -1}
	switch r.IntN(4) {
	case 0:
		v.Prior = 0
		po := cfg.Options
		po.Visibility = "show"
		po.Spelling = ""
		v.PriorOptions = &po
		v.SameObject = r.IntN(2) == 0
		if v.SameObject && r.IntN(2) == 0 {
			// an edit that changes who is living, applied after the first
			// publish: a death added to somebody living by age, or the death
			// of a young dead person removed
			var cands []int
			for i, tp := range people {
				if tp.role == "living-by-age" || tp.role == "dead-young" {
					cands = append(cands, i)
				}
			}
			if len(cands) > 0 {
				i := pick(r, cands)
				tp := people[i]
				if tp.role == "living-by-age" {
					v.Edits = []PubEdit{{Ptr: tp.p.Ptr, Op: "adddeath"}}
					cfg.People[i].Living = false
					cfg.People[i].Tokens = nil
				} else {
					v.Edits = []PubEdit{{Ptr: tp.p.Ptr, Op: "deldeath"}}
					cfg.People[i].Living = true
					cfg.People[i].Tokens = append([]string(nil), cfg.People[i].Names...)
				}
				editedAfter = true
			}
		}
	case 1:
		v.Prior = 1
		po := genPubOptions(r, []string{"show"})
		v.PriorOptions = &po
	case 2:
		v.SameOptions = true
		if r.IntN(2) == 0 {
			v.Prior = 0 // (an empty document instead of one with a dead person)
		}
	}
	if v.PriorOptions != nil && r.IntN(2) == 0 {
		// the earlier publish ends early: the disk fills up in the middle of
		// one of its first pages (what was rendered and not written is still
		// somewhere in the process when the publish under test starts)
		v.PriorFaults = []DiskFault{{Kind: "fail_body", K: 1 + r.IntN(6), B: pick(r, []int{0, 1, 40, 300, 2000})}}
	}
	cfg.Variants = []PubVariant{v}
	cfg.EditedBetween = editedAfter
	c.Publish = cfg
	c.Sim = GenSim(r)
	return c
}

// privateTokens: name tokens that occur only in records of living people.
func privateTokens(people []*tokPerson) map[string]bool {
	dead := map[string]bool{}
	for _, tp := range people {
		if tp.living {
			continue
		}
		for k := range tp.given {
			dead[tp.given[k]] = true
			dead[tp.surname[k]] = true
		}
	}
	priv := map[string]bool{}
	for _, tp := range people {
		if !tp.living {
			continue
		}
		for k := range tp.given {
			if !dead[tp.given[k]] {
				priv[tp.given[k]] = true
			}
			if !dead[tp.surname[k]] {
				priv[tp.surname[k]] = true
			}
		}
	}
	return priv
}

func whereLeaked(name string, data []byte, tok string) string {
	lower := bytes.ToLower(data)
	i := bytes.Index(lower, []byte(strings.ToLower(tok)))
	if i < 0 {
		return "file name"
	}
	lo, hi := i-70, i+len(tok)+40
	if lo < 0 {
		lo = 0
	}
	if hi > len(data) {
		hi = len(data)
	}
	return "…" + string(data[lo:hi]) + "…"
}

func runLivingCase(t *testing.T, c *Case, cr *CaseResult) *CaseResult {
	cfg := c.Publish
	prop := c.Prop
	v := PubVariant{Jobs: cfg.Jobs, Prior: -1}
	if len(cfg.Variants) > 0 {
		v = cfg.Variants[0]
	}
	if len(c.Docs) > 0 && strings.Contains(c.Docs[0], " \n") {
		cr.Probes["blank_padded_input"]++
	}
	if cfg.Options.Spelling != "" {
		refused := false
		func() {
			defer func() {
				if recover() != nil {
					refused = true
				}
			}()
			html.NewLivingVisibility(cfg.Options.Spelling)
		}()
		if refused {
			cr.Probes["visibility_spelling_refused"]++
			cfg.Options.Spelling = ""
		} else {
			cr.Probes["visibility_spelling_accepted"]++
		}
	}
	// history
	var run *pubRun
	var ok bool
	if v.SameOptions {
		// one options object for an earlier publish of a document without
		// living people (an empty one) and for the publish under test
		doc, err := decode(c.Docs[0])
		if err != nil {
			return cr
		}
		lib := cfg.Options.lib()
		if pd, err := decode("0 HEAD\n0 @I1@ INDI\n1 NAME Long /Dead/\n1 DEAT\n2 DATE 1 Jan 1800\n0 TRLR\n"); err == nil && v.Prior < 0 {
			sub := &CaseResult{Prop: prop, Probes: map[string]int64{}, Counters: map[string]int64{}}
			runPublishWith(t, sub, prop, pd, cfg.Options, lib, false, 1, simrt.Config{Mode: "default", MapOrder: "identity"}, c.Today, nil)
		} else if pd, err := decode("0 HEAD\n0 TRLR\n"); err == nil {
			sub := &CaseResult{Prop: prop, Probes: map[string]int64{}, Counters: map[string]int64{}}
			runPublishWith(t, sub, prop, pd, cfg.Options, lib, false, 1, simrt.Config{Mode: "default", MapOrder: "identity"}, c.Today, nil)
		}
		cr.Runs++
		cr.count("history.prior_publish", 1)
		cr.count("history.same_options_object", 1)
		run, ok = runPublishWith(t, cr, prop, doc, cfg.Options, lib, false, cfg.Jobs, c.Sim, c.Today, nil)
	} else if v.Prior == 0 && v.SameObject && v.PriorOptions != nil {
		// the same *gedcom.Document value is published with "show" first
		doc, err := decode(c.Docs[0])
		if err != nil {
			return cr
		}
		sub := &CaseResult{Prop: prop, Probes: map[string]int64{}, Counters: map[string]int64{}}
		runPublishDoc(t, sub, prop, doc, *v.PriorOptions, 1, simrt.Config{Mode: "default", MapOrder: "identity"}, c.Today, v.PriorFaults)
		cr.count("history.prior_publish_disk_full", int64(len(v.PriorFaults)))
		cr.Runs++
		cr.count("history.prior_publish", 1)
		cr.count("history.same_document_object", 1)
		if len(v.Edits) > 0 {
			// the document is edited through the API between the two
			// publishes (cfg.People describes the state after the edits)
			applyPubEdits(doc, v.Edits)
			cr.count("history.edit_between_publishes", 1)
		}
		run, ok = runPublishDoc(t, cr, prop, doc, cfg.Options, cfg.Jobs, c.Sim, c.Today, nil)
	} else {
		if v.Prior >= 0 && v.Prior < len(c.Docs) && v.PriorOptions != nil {
			sub := &CaseResult{Prop: prop, Probes: map[string]int64{}, Counters: map[string]int64{}}
			runPublish(t, sub, prop, c.Docs[v.Prior], *v.PriorOptions, 1, simrt.Config{Mode: "default", MapOrder: "identity"}, c.Today, v.PriorFaults)
			cr.count("history.prior_publish_disk_full", int64(len(v.PriorFaults)))
			cr.Runs++
			cr.count("history.prior_publish", 1)
		}
		run, ok = runPublish(t, cr, prop, c.Docs[0], cfg.Options, cfg.Jobs, c.Sim, c.Today, nil)
	}
	if !ok {
		return cr
	}
	cr.Valid = true
	cr.Recorded = &run.res.Recorded
	if cfg.Jobs > 1 {
		cr.Probes["jobs>1"]++
	}
	cr.Probes["visibility="+cfg.Options.Visibility]++
	if outcomeViolation(cr, prop, &run.res, "publish "+cfg.Options.Visibility) {
		return cr
	}
	nliving := 0
	for _, p := range cfg.People {
		if p.Living {
			nliving++
		}
	}
	if nliving > 0 {
		cr.Probes["has_living_people"]++
	}

	// (1)+(2): no private name token of a living person in any file name or content
	for _, p := range cfg.People {
		if !p.Living {
			continue
		}
		for _, tok := range p.Tokens {
			lt := strings.ToLower(tok)
			for name, data := range run.files {
				inName := strings.Contains(strings.ToLower(name), lt)
				if inName || bytes.Contains(bytes.ToLower(data), []byte(lt)) {
					where := pageKind(name)
					if inName {
						where = "file name"
					}
					cr.violate(prop+"/disclosure", "living person's name in "+where+" ("+cfg.Options.Visibility+")",
						fmt.Sprintf("token %q of living individual %s found in %q: %s", tok, p.Ptr, name, whereLeaked(name, data, tok)))
				}
			}
		}
	}
	// (4): people who are not living remain published
	if cfg.Options.Individuals {
		for _, p := range cfg.People {
			if p.Living || len(p.Names) == 0 {
				continue
			}
			found := false
			lt := strings.ToLower(p.Names[0])
			for name, data := range run.files {
				if pageKind(name) == "entity-page" && strings.Contains(strings.ToLower(name), lt) &&
					bytes.Contains(data, []byte(p.Names[0])) {
					found = true
				}
			}
			listed := false
			for name, data := range run.files {
				if pageKind(name) == "individual-list" && bytes.Contains(data, []byte(p.Names[0])) {
					listed = true
				}
			}
			if found && !listed {
				cr.violate(prop+"/completeness", "non-living person is on no individual list page ("+cfg.Options.Visibility+")",
					fmt.Sprintf("the name %q of non-living individual %s is on none of the individuals-*.html pages", p.Names[0], p.Ptr))
			}
			if !found {
				cr.violate(prop+"/completeness", "non-living person has no page ("+cfg.Options.Visibility+")",
					fmt.Sprintf("no generated page carries the name %q of non-living individual %s", p.Names[0], p.Ptr))
			}
			cr.Probes["nonliving_checked"]++
		}
	}
	// (3) hide: the site does not depend on living people's data. Compared
	// across different schedules and jobs on purpose (C19 demands schedule
	// independence).
	if cfg.Options.Visibility == "hide" && len(c.Docs) > 1 && !cfg.EditedBetween {
		other, ok2 := runPublish(t, cr, prop, c.Docs[1], cfg.Options, v.Jobs, v.Sim, c.Today, nil)
		if ok2 && !outcomeViolation(cr, prop, &other.res, "publish hide (D')") {
			if d := diffFiles(run.files, other.files); d != "" {
				cr.violate(prop+"/non-interference", "hide: site depends on living people's data: "+diffKinds(run, other),
					"documents differ only in names, dates and places of living individuals; "+d)
			}
			cr.Probes["hide_noninterference_compared"]++
		}
	}
	return cr
}

// diffKinds names the kinds of pages that differ between two runs.
func diffKinds(x, y *pubRun) string {
	set := map[string]bool{}
	for n, d := range x.files {
		if e, ok := y.files[n]; !ok || !bytes.Equal(d, e) {
			set[x.kinds[n]] = true
		}
	}
	for n := range y.files {
		if _, ok := x.files[n]; !ok {
			set[y.kinds[n]] = true
		}
	}
	var ks []string
	for k := range set {
		ks = append(ks, k)
	}
	sort.Strings(ks)
	return "differs in " + strings.Join(ks, ", ")
}

func firstDiffKind(a, b map[string][]byte) string {
	var names []string
	for n := range a {
		names = append(names, n)
	}
	for n := range b {
		if _, ok := a[n]; !ok {
			names = append(names, n)
		}
	}
	sort.Strings(names)
	for _, n := range names {
		x, okx := a[n]
		y, oky := b[n]
		if !okx || !oky || !bytes.Equal(x, y) {
			return "(" + pageKind(n) + ")"
		}
	}
	return ""
}
