package harness

// History engine: C13 (reads never modify a document and views reflect every
// edit). One simulated process holds 1-2 documents ("sessions") that share the
// process-global caches; a history is a list of edit / read / read-only
// operations; after every step every view of the live document is compared
// with the same view of a reference model, which is trivial inside: a fresh
// decode of the document's current GEDCOM text. DESIGN.md §5 C13.

import (
	"bytes"
	"fmt"
	"math/rand/v2"
	"simrt"
	"sort"
	"strings"
	"testing"
	"unsafe"

	gedcom "github.com/elliotchance/gedcom/v39"
	"github.com/elliotchance/gedcom/v39/html"
	"github.com/elliotchance/gedcom/v39/q"
)

type HistOp struct {
	S    int    `json:"s"`  // session
	Op   string `json:"op"` // see applyOp
	A    int    `json:"a,omitempty"`
	B    int    `json:"b,omitempty"`
	C    int    `json:"c,omitempty"`
	Str  string `json:"str,omitempty"`
	Str2 string `json:"str2,omitempty"`
	Jobs int    `json:"jobs,omitempty"`
	Seed uint64 `json:"seed,omitempty"`
	// Tight > 0 (concurrent read-only operations): the schedule preempts at
	// about every Tight-th lookup point, so that short windows inside the
	// first lookups after an edit are entered.
	Tight int `json:"tight,omitempty"`
	// Sub (Op == "par"): Sub[0], a read or read-only operation of session S,
	// and Sub[1], an edit of the OTHER session, run as two goroutines under
	// the scheduler: documents are independent, the caches behind them are
	// shared by the whole process.
	Sub []HistOp `json:"sub,omitempty"`
}

type HistoryCfg struct {
	Ops []HistOp `json:"ops"`
	// CheckEveryStep: compare all views after every step (which also warms
	// every cache before the next edit); otherwise only after the last step
	// and after read-only operations, so edits also meet cold caches.
	CheckEveryStep bool `json:"check_every_step"`
}

var histTags = []string{"NAME", "BIRT", "DEAT", "DATE", "PLAC", "NOTE", "SEX", "OCCU", "_UID", "BURI", "BAPM", "RESI", "TITL",
	"_FID", "_FSFTID", "Note", "Name", "note", "FAMS", "FAMC", "FAMS"}
var histValues = []string{"", "Ann /Lee/", "3 Sep 1943", "Sydney", "M", "F", "x", "EE13561DDB204985BFFDEEBF82A5226C", "@F1@", "@F2@"}

func genHistoryCase(prop, tier string, r *rand.Rand) *Case {
	o := GraphOpts{People: 1 + r.IntN(6), DeathProb: 0.5, BaseYear: 1800, Span: 150, Sources: r.IntN(2), UIDProb: 0.3,
		ExtraEvents: true, BackRefs: r.IntN(2) == 0}
	// an event recorded twice with different details (two sources disagree)
	repeatEvents := func(g *Graph) {
		for _, p := range g.People {
			switch r.IntN(6) {
			case 0:
				p.Events = append(p.Events, Event{Tag: pick(r, []string{"BIRT", "RESI", "DEAT"}), Date: GenDate(r, 1850+r.IntN(60))},
					Event{Tag: pick(r, []string{"BIRT", "RESI"}), Place: pick(r, placePool)})
			case 1:
				p.Events = append(p.Events, Event{Tag: "BIRT", Date: GenDate(r, 1850+r.IntN(60))}, Event{Tag: "BIRT", Place: pick(r, placePool)})
			case 3:
				// the same name recorded twice
				if len(p.Names) > 0 {
					p.Names = append(p.Names, p.Names[0])
				}
			case 2:
				// nothing is known about the birth
				var kept []Event
				for _, e := range p.Events {
					if e.Tag != "BIRT" {
						kept = append(kept, e)
					}
				}
				p.Events = kept
			}
		}
	}
	g := GenGraph(r, o)
	if len(g.Families) == 0 && len(g.People) > 0 {
		g.Families = append(g.Families, &Family{Ptr: "F1", Husb: g.People[0].Ptr})
	}
	if r.IntN(2) == 0 {
		repeatEvents(g)
	}
	c := &Case{Prop: prop, Engine: "history", Docs: []string{g.Text()}}
	sessions := 1
	if r.IntN(3) == 0 {
		sessions = 2
		o2 := o
		o2.People = 1 + r.IntN(4)
		g2 := GenGraph(r, o2)
		if r.IntN(2) == 0 {
			repeatEvents(g2)
		}
		c.Docs = append(c.Docs, g2.Text())
	}
	n := 1 + r.IntN(6)
	if tier == "thorough" {
		n = 1 + r.IntN(14)
		if r.IntN(20) == 0 {
			n = 20 + r.IntN(40)
		}
	}
	edits := []string{"node.add", "node.add", "node.delete", "node.delete", "node.setnodes", "fam.setnodes", "ind.setnodes", "doc.addnode", "doc.addnode.dup", "doc.addindividual", "doc.addindividual.dup",
		"doc.addfamily", "doc.addfamilyhw", "doc.delete", "doc.setnodes", "fam.sethusband", "fam.setwife", "fam.sethusband.nil",
		"fam.setwife.nil", "fam.sethusbandptr", "fam.setwifeptr", "fam.addchild", "ind.addname", "ind.addbirth", "ind.adddeath", "ind.setsex", "ind.dellink", "ind.dellink", "ind.addlink"}
	reads := []string{"read.nodeswithtag", "read.families", "read.individual", "read.family", "read.pointer", "read.all"}
	ros := []string{"ro.warnings", "ro.string", "ro.compare", "ro.surrounding", "ro.comparenodes", "ro.deepcopy", "ro.shallowcopy", "ro.filter",
		"ro.publish", "ro.query", "ro.diffpage", "ro.merge", "ro.mergenodes"}
	// swarm: operation mix varies per case
	wEdit, wRead, wRO := 1+r.IntN(4), r.IntN(3), r.IntN(3)
	cfg := &HistoryCfg{CheckEveryStep: r.IntN(4) > 0}
	if r.IntN(6) == 0 {
		// a short history of its own: somebody's husband or wife is deleted
		// and the first reader afterwards is a pool of goroutines (whatever
		// is rebuilt lazily after the edit is rebuilt by several at once)
		cfg.CheckEveryStep = false
		s := r.IntN(sessions)
		if r.IntN(2) == 0 {
			cfg.Ops = append(cfg.Ops, HistOp{S: s, Op: "doc.delete.spouse", B: 1})
		} else {
			for k := 1 + r.IntN(3); k > 0; k-- {
				cfg.Ops = append(cfg.Ops, HistOp{S: s, Op: "doc.delete.spouse", A: r.IntN(1000)})
			}
		}
		cfg.Ops = append(cfg.Ops, HistOp{S: s, Op: pick(r, []string{"ro.compare", "ro.compare", "ro.publish", "ro.diffpage"}), Jobs: pick(r, []int{2, 3, 8}),
			A: r.IntN(1000), B: r.IntN(1000), C: r.IntN(1000), Seed: r.Uint64(), Tight: pick(r, []int{2, 3, 5, 10, 20})})
	}
	if r.IntN(8) == 0 {
		// one family is given a husband (wife) twice, then something else,
		// and then the husband (wife) is taken away again: setters that are
		// repeated leave more than one line of a kind behind
		s, fam := r.IntN(sessions), r.IntN(1000)
		a, b := "fam.sethusband", "fam.setwife"
		if r.IntN(2) == 0 {
			a, b = b, a
		}
		third := pick(r, []string{b, "fam.addchild", b})
		for _, name := range []string{a, a, third, a + ".nil"} {
			cfg.Ops = append(cfg.Ops, HistOp{S: s, Op: name, A: fam, B: r.IntN(1000), C: r.IntN(1000), Seed: r.Uint64()})
		}
	}
	for i := 0; i < n; i++ {
		op := HistOp{S: r.IntN(sessions), A: r.IntN(1000), B: r.IntN(1000), C: r.IntN(1000), Seed: r.Uint64()}
		k := r.IntN(wEdit + wRead + wRO)
		switch {
		case k < wEdit:
			op.Op = pick(r, edits)
			op.Str = pick(r, histTags)
			op.Str2 = pick(r, histValues)
		case k < wEdit+wRead:
			op.Op = pick(r, reads)
			op.Str = pick(r, histTags)
		default:
			op.Op = pick(r, ros)
			op.Jobs = pick(r, []int{1, 2, 3, 8})
		}
		if (op.Op == "doc.delete" || op.Op == "doc.setnodes" || op.Op == "node.delete") && r.IntN(2) == 0 {
			// root records go, and the next thing that happens is a read by
			// several goroutines at once (nothing looks anything up before)
			if op.Op == "doc.delete" && r.IntN(2) == 0 {
				// the record that goes is somebody's husband or wife: the
				// records that stay still point at it
				op.Op = "doc.delete.spouse"
			}
			cfg.Ops = append(cfg.Ops, op)
			op = HistOp{S: op.S, Op: pick(r, []string{"ro.compare", "ro.compare", "ro.publish", "ro.diffpage"}), Jobs: pick(r, []int{2, 3, 8}),
				A: r.IntN(1000), B: r.IntN(1000), C: r.IntN(1000), Seed: r.Uint64(), Tight: pick(r, []int{0, 2, 5, 10, 20})}
			if r.IntN(2) == 0 {
				cfg.CheckEveryStep = false
			}
		}
		if sessions == 2 && r.IntN(5) == 0 {
			// two users of the library at the same time, each with its own document
			ro := HistOp{S: op.S, Op: pick(r, []string{"ro.warnings", "ro.warnings", "ro.string", "ro.filter", "ro.deepcopy", "ro.comparenodes", "ro.query", "ro.surrounding", "read.all"}),
				A: r.IntN(1000), B: r.IntN(1000), C: r.IntN(1000), Str: pick(r, histTags), Jobs: 1, Seed: r.Uint64()}
			ed := HistOp{S: 1 - op.S, Op: pick(r, edits), A: r.IntN(1000), B: r.IntN(1000), C: r.IntN(1000), Str: pick(r, histTags), Str2: pick(r, histValues)}
			op = HistOp{S: op.S, Op: "par", Seed: r.Uint64(), Sub: []HistOp{ro, ed}}
		}
		cfg.Ops = append(cfg.Ops, op)
	}
	c.History = cfg
	c.Today = pick(r, []string{"", "", "2025-03-01"})
	return c
}

// ---------------------------------------------------------------------------
// views

type session struct {
	doc     *gedcom.Document
	counter int
}

func allNodes(doc *gedcom.Document) (nodes []gedcom.Node, paths map[unsafe.Pointer]string) {
	paths = map[unsafe.Pointer]string{}
	var walk func(n gedcom.Node, path string, depth int)
	walk = func(n gedcom.Node, path string, depth int) {
		if gedcom.IsNil(n) || depth > 60 || len(nodes) > 5000 {
			return
		}
		if _, dup := paths[nodePtr(n)]; !dup {
			paths[nodePtr(n)] = path
		}
		nodes = append(nodes, n)
		for i, c := range n.Nodes() {
			walk(c, fmt.Sprintf("%s.%d", path, i), depth+1)
		}
	}
	for i, n := range doc.Nodes() {
		walk(n, fmt.Sprint(i), 0)
	}
	return
}

func nodeRef(n gedcom.Node, paths map[unsafe.Pointer]string) string {
	if gedcom.IsNil(n) {
		return "<nil>"
	}
	if p, ok := paths[nodePtr(n)]; ok {
		return p
	}
	return "<not in the document: " + gedcom.GEDCOMLine(n, 0) + ">"
}

func refList(paths map[unsafe.Pointer]string, ns ...gedcom.Node) string {
	var out []string
	for _, n := range ns {
		out = append(out, nodeRef(n, paths))
	}
	return "[" + strings.Join(out, " ") + "]"
}

// views computes every derived view of a document, normalised to strings that
// identify nodes by their position in the tree.
func views(doc *gedcom.Document) (v map[string]string, err error) {
	return viewsInOrder(doc, 0)
}

// viewsInOrder reads the same views; order != 0 reads the per-individual and
// per-family accessors in the opposite order (unique identifiers first), since
// a view may only be wrong when it is read after a particular other one.
func viewsInOrder(doc *gedcom.Document, order int) (v map[string]string, err error) {
	defer func() {
		if r := recover(); r != nil {
			err = fmt.Errorf("view panicked: %v", r)
		}
	}()
	v = map[string]string{}
	nodes, paths := allNodes(doc)
	tagsSeen := map[string]gedcom.Tag{}
	for _, n := range nodes {
		tagsSeen[n.Tag().Tag()] = n.Tag()
	}
	var tagNames []string
	for t := range tagsSeen {
		tagNames = append(tagNames, t)
	}
	sort.Strings(tagNames)
	var b strings.Builder
	for _, n := range nodes {
		for _, tn := range tagNames {
			res := gedcom.NodesWithTag(n, tagsSeen[tn])
			if len(res) > 0 || len(n.Nodes()) > 0 {
				fmt.Fprintf(&b, "%s/%s=%s\n", paths[nodePtr(n)], tn, refList(paths, res...))
			}
		}
	}
	v["NodesWithTag"] = b.String()

	var ns []gedcom.Node
	for _, i := range doc.Individuals() {
		ns = append(ns, i)
	}
	v["Individuals"] = refList(paths, ns...)
	ns = nil
	for _, f := range doc.Families() {
		ns = append(ns, f)
	}
	v["Families"] = refList(paths, ns...)

	b.Reset()
	ptrs := map[string]bool{"I1": true, "F1": true, "nope": true}
	for _, n := range nodes {
		if n.Pointer() != "" {
			ptrs[n.Pointer()] = true
		}
	}
	var ps []string
	for p := range ptrs {
		ps = append(ps, p)
	}
	sort.Strings(ps)
	rootPtr := map[string]bool{}
	for _, n := range doc.Nodes() {
		rootPtr[n.Pointer()] = true
	}
	for _, p := range ps {
		// the pointer index covers root records; with duplicate pointers the
		// answer is one of them, which a rebuild may resolve differently
		n := doc.NodeByPointer(p)
		fmt.Fprintf(&b, "%s=%s\n", p, nodeRef(n, paths))
	}
	v["NodeByPointer"] = b.String()

	b.Reset()
	for _, ind := range doc.Individuals() {
		id := paths[nodePtr(ind)]
		ind := ind
		readers := []func() string{
			func() string {
				var ns []gedcom.Node
				for _, x := range ind.Names() {
					ns = append(ns, x)
				}
				return fmt.Sprintf("%s.Names=%s\n", id, refList(paths, ns...))
			},
			func() string { return fmt.Sprintf("%s.AllEvents=%s\n", id, refList(paths, ind.AllEvents()...)) },
			func() string {
				var ns []gedcom.Node
				for _, x := range ind.Families() {
					ns = append(ns, x)
				}
				return fmt.Sprintf("%s.Families=%s\n", id, refList(paths, ns...))
			},
			func() string {
				var ns []gedcom.Node
				for _, x := range ind.Spouses() {
					ns = append(ns, x)
				}
				return fmt.Sprintf("%s.Spouses=%s\n", id, refList(paths, ns...))
			},
			func() string {
				var ns []gedcom.Node
				for _, x := range ind.Parents() {
					ns = append(ns, x)
				}
				return fmt.Sprintf("%s.Parents=%s\n", id, refList(paths, ns...))
			},
			func() string {
				var ns []gedcom.Node
				for _, x := range ind.Children() {
					ns = append(ns, x)
				}
				return fmt.Sprintf("%s.Children=%s\n", id, refList(paths, ns...))
			},
			func() string {
				return fmt.Sprintf("%s.UniqueIdentifiers=%v\n", id, ind.UniqueIdentifiers().Strings())
			},
			func() string { return fmt.Sprintf("%s.IsLiving=%v\n", id, ind.IsLiving()) },
		}
		out := make([]string, len(readers))
		if order == 0 {
			for i, f := range readers {
				out[i] = f()
			}
		} else {
			for i := len(readers) - 1; i >= 0; i-- {
				out[i] = readers[i]()
			}
		}
		b.WriteString(strings.Join(out, ""))
	}
	v["Individual"] = b.String()

	b.Reset()
	for _, f := range doc.Families() {
		id := paths[nodePtr(f)]
		var h, w gedcom.Node
		if x := f.Husband(); x != nil {
			h = x
		}
		if x := f.Wife(); x != nil {
			w = x
		}
		fmt.Fprintf(&b, "%s.Husband=%s\n", id, nodeRef(h, paths))
		fmt.Fprintf(&b, "%s.Wife=%s\n", id, nodeRef(w, paths))
		ns = nil
		for _, x := range f.Children() {
			ns = append(ns, x)
		}
		fmt.Fprintf(&b, "%s.Children=%s\n", id, refList(paths, ns...))
	}
	v["Family"] = b.String()
	return v, nil
}

func hasDuplicatePointers(doc *gedcom.Document) bool {
	seen := map[string]bool{}
	for _, n := range doc.Nodes() {
		p := n.Pointer()
		if p == "" {
			continue
		}
		if seen[p] {
			return true
		}
		seen[p] = true
	}
	return false
}

var viewOrder = []string{"NodesWithTag", "Individuals", "Families", "NodeByPointer", "Individual", "Family"}

func diffViews(a, b map[string]string) (string, string) {
	for _, k := range viewOrder {
		if a[k] != b[k] {
			return k, firstDiff(a[k], b[k])
		}
	}
	return "", ""
}

// ---------------------------------------------------------------------------
// operations

func nthNode(nodes []gedcom.Node, k int) gedcom.Node {
	if len(nodes) == 0 {
		return nil
	}
	return nodes[k%len(nodes)]
}

func nthIndividual(doc *gedcom.Document, k int) *gedcom.IndividualNode {
	is := doc.Individuals()
	if len(is) == 0 {
		return nil
	}
	return is[k%len(is)]
}

func nthFamily(doc *gedcom.Document, k int) *gedcom.FamilyNode {
	var fs []*gedcom.FamilyNode
	for _, n := range doc.Nodes() {
		if f, ok := n.(*gedcom.FamilyNode); ok {
			fs = append(fs, f)
		}
	}
	if len(fs) == 0 {
		return nil
	}
	return fs[k%len(fs)]
}

func safeTag(s string) gedcom.Tag {
	switch s {
	case "INDI", "FAM", "HUSB", "WIFE", "CHIL", "":
		s = "NOTE"
	}
	return gedcom.TagFromString(s)
}

// applyEdit performs one edit or plain read. It returns false when the
// operation does not apply to the current document (counted, not judged).
func applyEdit(ss *session, op HistOp) (applied bool) {
	doc := ss.doc
	nodes, _ := allNodes(doc)
	switch op.Op {
	case "node.add":
		p := nthNode(nodes, op.A)
		if p == nil {
			return false
		}
		p.AddNode(gedcom.NewNode(safeTag(op.Str), op.Str2, ""))
	case "node.delete":
		var parents []gedcom.Node
		for _, n := range nodes {
			if len(n.Nodes()) > 0 {
				parents = append(parents, n)
			}
		}
		p := nthNode(parents, op.A)
		if p == nil {
			return false
		}
		p.DeleteNode(p.Nodes()[op.B%len(p.Nodes())])
	case "node.setnodes":
		var parents []gedcom.Node
		for _, n := range nodes {
			if len(n.Nodes()) > 0 {
				parents = append(parents, n)
			}
		}
		p := nthNode(parents, op.A)
		if p == nil {
			return false
		}
		p.SetNodes(replacementNodes(p.Nodes(), op.B))
	case "fam.setnodes", "ind.setnodes":
		var p gedcom.Node
		if op.Op == "fam.setnodes" {
			if f := nthFamily(doc, op.A); f != nil {
				p = f
			}
		} else if i := nthIndividual(doc, op.A); i != nil {
			p = i
		}
		if p == nil {
			return false
		}
		p.SetNodes(replacementNodes(p.Nodes(), op.B))
	case "doc.addnode":
		ss.counter++
		doc.AddNode(gedcom.NewNode(gedcom.TagFromString(pick2s(op.A, "NOTE", "SOUR", "SUBM")), op.Str2, fmt.Sprintf("R%d", ss.counter)))
	case "doc.addnode.dup":
		// a record of another kind that takes the pointer of an individual
		// (the last record with a pointer answers for it)
		i := nthIndividual(doc, op.A)
		if i == nil {
			return false
		}
		doc.AddNode(gedcom.NewNode(gedcom.TagFromString(pick2s(op.B, "NOTE", "SOUR", "SUBM")), op.Str2, i.Pointer()))
	case "doc.addindividual":
		ss.counter++
		doc.AddIndividual(fmt.Sprintf("N%d", ss.counter), gedcom.NewNode(gedcom.TagName, "New /Person/", ""))
	case "doc.addindividual.dup":
		// a pointer that is already taken
		i := nthIndividual(doc, op.A)
		if i == nil {
			return false
		}
		doc.AddIndividual(i.Pointer(), gedcom.NewNode(gedcom.TagName, "Same /Pointer/", ""))
	case "doc.addfamily":
		ss.counter++
		doc.AddFamily(fmt.Sprintf("G%d", ss.counter))
	case "doc.addfamilyhw":
		h, w := nthIndividual(doc, op.A), nthIndividual(doc, op.B)
		if h == nil || w == nil {
			return false
		}
		ss.counter++
		doc.AddFamilyWithHusbandAndWife(fmt.Sprintf("G%d", ss.counter), h, w)
	case "doc.delete":
		if len(doc.Nodes()) == 0 {
			return false
		}
		doc.DeleteNode(doc.Nodes()[op.A%len(doc.Nodes())])
	case "doc.delete.spouse":
		// found by walking the raw lines: nothing is looked up by pointer
		// between the edit before and the read after this operation
		// (B == 1: every husband goes, so that everybody who stays and was
		// married points at a record that is gone)
		spouse := map[string]bool{}
		for _, n := range doc.Nodes() {
			if n.Tag().Tag() != "FAM" {
				continue
			}
			for _, ch := range n.Nodes() {
				if t := ch.Tag().Tag(); t == "HUSB" || (t == "WIFE" && op.B != 1) {
					spouse[strings.Trim(ch.Value(), "@")] = true
				}
			}
		}
		var cands []gedcom.Node
		for _, n := range doc.Nodes() {
			if n.Tag().Tag() == "INDI" && spouse[n.Pointer()] {
				cands = append(cands, n)
			}
		}
		if len(cands) == 0 {
			return false
		}
		if op.B == 1 {
			for _, n := range cands {
				doc.DeleteNode(n)
			}
			break
		}
		doc.DeleteNode(cands[op.A%len(cands)])
	case "doc.setnodes":
		old := doc.Nodes()
		var nw gedcom.Nodes
		switch op.B % 3 {
		case 0:
			nw = append(nw, old[:len(old)/2]...)
		case 1:
			for i := len(old) - 1; i >= 0; i-- {
				nw = append(nw, old[i])
			}
		default:
			nw = append(nw, old...)
			ss.counter++
			nw = append(nw, gedcom.NewNode(gedcom.TagNote, "set", fmt.Sprintf("R%d", ss.counter)))
		}
		doc.SetNodes(nw)
	case "fam.sethusband", "fam.setwife", "fam.sethusband.nil", "fam.setwife.nil", "fam.sethusbandptr", "fam.setwifeptr", "fam.addchild":
		f := nthFamily(doc, op.A)
		i := nthIndividual(doc, op.B)
		if f == nil {
			return false
		}
		switch op.Op {
		case "fam.sethusband.nil":
			f.SetHusband(nil)
			return true
		case "fam.setwife.nil":
			f.SetWife(nil)
			return true
		}
		if i == nil {
			return false
		}
		switch op.Op {
		case "fam.sethusband":
			f.SetHusband(i)
		case "fam.setwife":
			f.SetWife(i)
		case "fam.sethusbandptr":
			f.SetHusbandPointer(i.Pointer())
		case "fam.setwifeptr":
			f.SetWifePointer(i.Pointer())
		case "fam.addchild":
			f.AddChild(i)
		}
	case "ind.addname", "ind.addbirth", "ind.adddeath", "ind.setsex":
		i := nthIndividual(doc, op.A)
		if i == nil {
			return false
		}
		switch op.Op {
		case "ind.addname":
			i.AddName("Added /Name/")
		case "ind.addbirth":
			i.AddBirthDate("1 Jan 1900")
		case "ind.adddeath":
			i.AddDeathDate("2 Feb 1980")
		case "ind.setsex":
			i.SetSex(pick2s(op.B, "M", "F", "U"))
		}
	case "ind.dellink", "ind.addlink":
		// the FAMS/FAMC lines of an individual are edited directly (they say
		// again what the families say; a view that follows them must notice)
		i := nthIndividual(doc, op.A)
		if i == nil {
			return false
		}
		if op.Op == "ind.addlink" {
			f := nthFamily(doc, op.B)
			if f == nil || f.Pointer() == "" {
				return false
			}
			i.AddNode(gedcom.NewNode(gedcom.TagFromString(pick2s(op.C, "FAMS", "FAMC")), "@"+f.Pointer()+"@", ""))
			break
		}
		var links []gedcom.Node
		for _, ch := range i.Nodes() {
			if t := ch.Tag().Tag(); t == "FAMS" || t == "FAMC" {
				links = append(links, ch)
			}
		}
		if len(links) == 0 {
			return false
		}
		i.DeleteNode(links[op.B%len(links)])
	// plain reads: warm one cache at the right moment
	case "read.nodeswithtag":
		n := nthNode(nodes, op.A)
		if n == nil {
			return false
		}
		gedcom.NodesWithTag(n, gedcom.TagFromString(op.Str))
		for _, c := range n.Nodes() {
			gedcom.NodesWithTag(n, c.Tag())
		}
	case "read.families":
		doc.Families()
	case "read.individual":
		i := nthIndividual(doc, op.A)
		if i == nil {
			return false
		}
		i.Names()
		i.Families()
		i.Spouses()
		i.Parents()
		i.Children()
		i.UniqueIdentifiers()
	case "read.family":
		f := nthFamily(doc, op.A)
		if f == nil {
			return false
		}
		f.Husband()
		f.Wife()
		f.Children()
	case "read.pointer":
		if n := nthNode(nodes, op.A); n != nil {
			doc.NodeByPointer(n.Pointer())
		}
	case "read.all":
		views(doc)
	default:
		return false
	}
	return true
}

func pick2s(k int, xs ...string) string { return xs[k%len(xs)] }

// replacementNodes derives the new child list of a SetNodes edit from the old
// one: nothing, the first half, reversed, everything but the relation nodes
// (never empty), or a single new node.
func replacementNodes(old gedcom.Nodes, k int) gedcom.Nodes {
	var nw gedcom.Nodes
	switch k % 5 {
	case 0:
		return nil
	case 1:
		nw = append(nw, old[:len(old)/2]...)
	case 2:
		for i := len(old) - 1; i >= 0; i-- {
			nw = append(nw, old[i])
		}
	case 3:
		for _, n := range old {
			switch n.Tag().Tag() {
			case "HUSB", "WIFE", "CHIL", "_UID", "_FID", "_FSFTID", "FAMS", "FAMC":
				continue
			}
			nw = append(nw, n)
		}
		if len(nw) == 0 {
			nw = gedcom.Nodes{gedcom.NewNode(gedcom.TagNote, "only this is left", "")}
		}
	default:
		nw = gedcom.Nodes{gedcom.NewNode(gedcom.TagNote, "replaced", "")}
	}
	return nw
}

// applyReadOnly performs one read-only operation; concurrent ones run inside
// the simulator with a schedule derived from the operation's seed.
func applyReadOnly(t *testing.T, cr *CaseResult, prop string, ss *session, other *session, op HistOp, today string) (applied bool, masked string) {
	doc := ss.doc
	jobs := op.Jobs
	if jobs < 1 {
		jobs = 1
	}
	guard := func(f func()) {
		defer func() {
			if r := recover(); r != nil {
				masked = fmt.Sprintf("%s panicked: %v", op.Op, r)
			}
		}()
		f()
	}
	sim := GenSim(NewRand(op.Seed))
	if op.Tight > 0 {
		// a goroutine that is preempted at a lookup stays behind for a while
		// (a slow thread): the few instructions between two of its steps
		// become a long window for everybody else
		sim.PointGap = int64(op.Tight)
		sim.StallSteps = pick(NewRand(op.Seed), []int64{5, 10, 10, 20, 50})
		if op.Seed%2 == 0 {
			sim.Mode, sim.PCTDepth, sim.PCTHorizon = "pct", 2, 200
		} else {
			sim.Mode, sim.PreemptProb = "random", 0.3
		}
	}
	sim.Today = parseToday(today)
	labels := map[unsafe.Pointer]int{}
	n := labelDoc(labels, doc, 0)
	if other != nil {
		labelDoc(labels, other.doc, n+1000)
	}
	sim.Labels = labels
	inSim := func(f func()) {
		res, _ := runSim(t, cr, prop, sim, f)
		if res.Outcome != "completed" {
			masked = op.Op + ": " + res.Outcome
			if res.Crash != nil {
				masked += " " + crashSignature(res.Crash)
			}
		}
	}
	switch op.Op {
	case "ro.warnings":
		guard(func() { _ = doc.Warnings().Strings() })
	case "ro.string":
		guard(func() { _ = doc.String() })
	case "ro.compare":
		right := doc
		if other != nil {
			right = other.doc
		}
		inSim(func() {
			o := gedcom.NewIndividualNodesCompareOptions()
			o.Jobs = jobs
			doc.Individuals().Compare(right.Individuals(), o)
		})
	case "ro.surrounding":
		a, b := nthIndividual(doc, op.A), nthIndividual(doc, op.B)
		if a == nil || b == nil {
			return false, ""
		}
		guard(func() { a.SurroundingSimilarity(b, gedcom.NewSimilarityOptions(), op.C%2 == 0) })
	case "ro.comparenodes":
		a, b := nthIndividual(doc, op.A), nthIndividual(doc, op.B)
		if a == nil || b == nil {
			return false, ""
		}
		guard(func() {
			d := gedcom.CompareNodes(a, b)
			_ = d.String()
			_ = d.IsDeepEqual()
			if op.C%2 == 0 {
				d.Sort()
				_ = d.String()
			}
		})
	case "ro.shallowcopy":
		nodes, _ := allNodes(doc)
		nd := nthNode(nodes, op.A)
		if op.B%2 == 0 {
			if i := nthIndividual(doc, op.A); i != nil {
				nd = i
			}
		} else if op.B%3 == 0 {
			if f := nthFamily(doc, op.A); f != nil {
				nd = f
			}
		}
		if nd == nil {
			return false, ""
		}
		guard(func() { nd.ShallowCopy() })
	case "ro.merge":
		// merging copies the nodes of both inputs out into a third document
		right := doc
		if other != nil {
			right = other.doc
		}
		inSim(func() {
			o := gedcom.NewIndividualNodesCompareOptions()
			o.Jobs = jobs
			gedcom.MergeDocumentsAndIndividuals(doc, right, gedcom.EqualityMergeFunction, o)
		})
	case "ro.mergenodes":
		a, b := nthIndividual(doc, op.A), nthIndividual(doc, op.B)
		if other != nil {
			b = nthIndividual(other.doc, op.B)
		}
		if op.C%2 == 0 {
			// the interesting shape: the right side has several children that
			// are equal to each other (two births) and the left side has none
			bd := doc
			if other != nil {
				bd = other.doc
			}
			for _, x := range doc.Individuals() {
				if len(x.Births()) == 0 {
					a = x
					break
				}
			}
			for _, x := range bd.Individuals() {
				if len(x.Births()) >= 2 && x != a {
					b = x
					break
				}
			}
		}
		if a == nil || b == nil {
			return false, ""
		}
		guard(func() { gedcom.MergeNodes(a, b, gedcom.NewDocument()) })
	case "ro.deepcopy":
		nodes, _ := allNodes(doc)
		nd := nthNode(nodes, op.A)
		if nd == nil {
			return false, ""
		}
		guard(func() { gedcom.DeepCopy(nd, gedcom.NewDocument()) })
	case "ro.filter":
		i := nthIndividual(doc, op.A)
		if i == nil {
			return false, ""
		}
		guard(func() {
			if op.C%2 == 1 {
				// the exported filters used directly, one at a time
				fn := []gedcom.FilterFunction{gedcom.RemoveDuplicateNamesFilter(), gedcom.RemoveEmptyDeathTagFilter(), gedcom.OnlyVitalsTagFilter(),
					gedcom.OfficialTagFilter(), gedcom.SimpleNameFilter(gedcom.NameFormatWritten), gedcom.BlacklistTagFilter(gedcom.TagPlace),
					gedcom.WhitelistTagFilter(gedcom.TagIndividual, gedcom.TagName, gedcom.TagBirth)}[op.B%7]
				gedcom.Filter(i, gedcom.NewDocument(), fn)
				return
			}
			ff := &gedcom.FilterFlags{NoPlaces: op.B%2 == 0, OnlyVitals: op.C%3 == 0, NoDuplicateNames: true}
			ff.Filter(i, gedcom.NewDocument())
		})
	case "ro.publish":
		disk := &Disk{}
		inSim(func() {
			o := PubOptions{Individuals: true, Places: true, Families: true, Surnames: true, Sources: true, Statistics: true, Visibility: "show"}
			html.NewPublisher(doc, o.lib()).Publish(disk, jobs)
		})
	case "ro.diffpage":
		right := doc
		if other != nil {
			right = other.doc
		}
		inSim(func() {
			o := gedcom.NewIndividualNodesCompareOptions()
			o.Jobs = jobs
			cmp := doc.Individuals().Compare(right.Individuals(), o)
			var buf bytes.Buffer
			html.NewDiffPage(cmp, &gedcom.FilterFlags{}, "", html.DiffPageShowAll, html.DiffPageSortWrittenName, nil, o, html.LivingVisibilityShow).WriteHTMLTo(&buf)
		})
	case "ro.query":
		guard(func() {
			query := pick2s(op.A, `.Nodes | Only(.Pointer = "S1")`, `.Families | Only(.Pointer = "F2")`, `.Nodes | Last(1)`, `.Families | First(1)`,
				`.Individuals | Only(.Pointer = "I2") | .Families`, `Combine(.Families, .Families) | Length`, `Combine(.Nodes | First(1), .Nodes | Last(1))`,
				`Combine(.Families | First(1), .Families | Last(1))`, `Fs are .Families | First(1); Combine(Fs, .Families | Last(1)) | Length`, `.Nodes | Only(.Tag = "FAM")`,
				`.Individuals | .Name | .String`, `.Individuals | { name: .Name | .String, born: .Birth | .String }`,
				`.Families | { husband: .Husband | .String, wife: .Wife | .String }`, `.Individuals | .Spouses`, `.Individuals | .Parents`,
				`.Individuals | Only(.IsLiving) | .Age`, `.Individuals | NodesWithTagPath("BIRT", "DATE")`, `.Families | .Children`)
			e, err := q.NewParser().ParseString(query)
			if err != nil {
				return
			}
			res, err := e.Evaluate([]*gedcom.Document{doc})
			if err != nil {
				return
			}
			var out bytes.Buffer
			(&q.JSONFormatter{Writer: &out}).Write(res)
		})
	default:
		return false, ""
	}
	return true, masked
}

// ---------------------------------------------------------------------------

func runHistoryCase(t *testing.T, c *Case) *CaseResult {
	cr := &CaseResult{Prop: c.Prop, Probes: map[string]int64{}, Counters: map[string]int64{}}
	if c.History == nil || len(c.Docs) == 0 {
		return cr
	}
	for _, text := range c.Docs {
		if _, err := decode(text); err != nil {
			return cr
		}
	}
	cr.Valid = true
	ops := c.History.Ops
	culprit := execHistory(t, c, cr, ops, c.History.CheckEveryStep, true)
	if culprit == "sparse-mismatch" {
		// The views were only compared at the end: find the first prefix of
		// the history whose end state is incoherent, so that the violation
		// names the operation that caused it.
		for l := 1; l <= len(ops); l++ {
			sub := &CaseResult{Prop: c.Prop, Probes: map[string]int64{}, Counters: map[string]int64{}}
			if r := execHistory(t, c, sub, ops[:l], false, false); r == "sparse-mismatch" || len(sub.Violations) > 0 {
				for _, v := range sub.Violations {
					cr.violate(v.Oracle, v.Signature+" (views not read in between)", v.Detail)
				}
				break
			}
		}
		if len(cr.Violations) == 0 {
			cr.violate(c.Prop+"/coherence", "incoherent at the end of the history only", "no prefix reproduces it")
		}
	}
	var sig []string
	for _, op := range ops {
		sig = append(sig, op.Op)
	}
	cr.Distinct = append(cr.Distinct, strings.Join(sig, ">"))
	if len(sig) >= 2 {
		cr.NonTrivial = true
	}
	return cr
}

// execHistory runs the operations on fresh sessions. With report == false a
// mismatch at the end is only signalled through the return value
// "sparse-mismatch" (used while bisecting).
func execHistory(t *testing.T, c *Case, cr *CaseResult, ops []HistOp, every bool, first bool) string {
	prop := c.Prop
	var sessions []*session
	for _, text := range c.Docs {
		d, err := decode(text)
		if err != nil {
			return ""
		}
		sessions = append(sessions, &session{doc: d})
	}
	if len(sessions) > 1 && first {
		cr.count("history.shared_process", 1)
	}
	sparseFail := false

	// checkAll compares every session with its model; returns false to stop
	checkAll := func(step int, op HistOp, kind string) bool {
		// The live views are read before any model is decoded: decoding adds
		// nodes, which resets the process-wide children-by-tag cache, and the
		// views have to be read from the caches exactly as the edit left them.
		lives := make([]map[string]string, len(sessions))
		liveErrs := make([]error, len(sessions))
		for si, ss := range sessions {
			// (alternating: unique identifiers first on odd steps)
			lives[si], liveErrs[si] = viewsInOrder(ss.doc, step%2)
		}
		// Reading the views is itself a read-only operation: a second pass
		// right away (same caches, nothing in between) must give the same.
		for si, ss := range sessions {
			if liveErrs[si] != nil {
				continue
			}
			again, err := views(ss.doc)
			if err != nil {
				continue
			}
			if view, d := diffViews(again, lives[si]); view != "" {
				cr.violate(prop+"/purity", fmt.Sprintf("view=%s changed by reading the views", view),
					fmt.Sprintf("step %d (after %s): reading every view twice in a row gives different results\n%s", step, op.Op, d))
				return false
			}
		}
		for si, ss := range sessions {
			text := ss.doc.String()
			model, err := decode(text)
			if err != nil {
				cr.Probes["history_left_the_decodable_space"]++
				return false
			}
			if hasDuplicatePointers(ss.doc) {
				// the index answers with the last record of that pointer, in
				// the live document and in a rebuilt one alike
				cr.Probes["duplicate_pointers"]++
			}
			live, err1 := lives[si], liveErrs[si]
			want, err2 := views(model)
			if err1 != nil || err2 != nil {
				cr.Masked = "crash"
				cr.observe(fmt.Sprintf("views panicked after %s: %v %v", op.Op, err1, err2))
				return false
			}
			if model.String() != text {
				cr.observe("model text is not a fix-point (C02's subject)")
				return false
			}
			// Decoding the model added nodes, which resets the process-wide
			// children-by-tag cache. Read the live views once more so that the
			// next edit meets warm caches (that is the situation the property
			// is about); in sparse mode the explicit read operations do that.
			if every {
				views(ss.doc)
			}
			if view, d := diffViews(live, want); view != "" {
				if kind == "end of history" && first {
					sparseFail = true
					return false
				}
				who := ""
				if si != op.S {
					who = " of the other session"
				}
				cr.violate(prop+"/coherence", fmt.Sprintf("view=%s%s after=%s", view, who, op.Op),
					fmt.Sprintf("step %d (%s on session %d, %s): view %s of session %d differs from a fresh decode of its text\n%s\ntext:\n%s",
						step, op.Op, op.S, kind, view, si, d, clip(text, 500)))
				return false
			}
		}
		return true
	}

	nops := len(ops)
	for step, op := range ops {
		if op.S >= len(sessions) {
			op.S = 0
		}
		ss := sessions[op.S]
		var other *session
		if len(sessions) > 1 {
			other = sessions[1-op.S]
		}
		if op.Op == "par" {
			if len(sessions) < 2 || len(op.Sub) != 2 {
				cr.Probes["op_not_applicable"]++
				continue
			}
			roOp, edOp := op.Sub[0], op.Sub[1]
			roS, edS := sessions[op.S], sessions[1-op.S]
			roBefore := roS.doc.String()
			var roViews map[string]string
			if every {
				roViews, _ = views(roS.doc)
				views(edS.doc) // warm: the edit meets current caches
			}
			sim := GenSim(NewRand(op.Seed))
			if sim.Mode == "default" {
				sim.Mode = "random"
				sim.PreemptProb = 0.3
			}
			if sim.PointGap == 0 || sim.PointGap > 40 {
				sim.PointGap = 1 + int64(op.Seed%40) // preempt inside the operations, at their atomics and sync.Map calls
			}
			sim.Today = parseToday(c.Today)
			var pvRO, pvEd string
			edApplied := false
			res, _ := runSim(t, cr, prop, sim, func() {
				done := make(chan struct{}, 2)
				simrt.Go("hist:reader", func() {
					defer func() {
						if r := recover(); r != nil {
							pvRO = fmt.Sprint(r)
						}
						done <- struct{}{}
					}()
					simrt.Yield("hist:reader.start")
					if strings.HasPrefix(roOp.Op, "read.") {
						applyEdit(roS, roOp)
					} else {
						applyReadOnly(t, cr, prop, roS, nil, roOp, c.Today)
					}
				})
				simrt.Go("hist:editor", func() {
					defer func() {
						if r := recover(); r != nil {
							pvEd = fmt.Sprint(r)
						}
						done <- struct{}{}
					}()
					simrt.Yield("hist:editor.start")
					edApplied = applyEdit(edS, edOp)
				})
				for i := 0; i < 2; i++ {
					simrt.Yield("hist:join")
					<-done
				}
			})
			cr.Runs++
			if res.Outcome != "completed" || pvRO != "" || pvEd != "" {
				cr.Masked = "crash"
				cr.observe("concurrent pair did not complete: " + res.Outcome + " " + clip(pvRO+pvEd, 100))
				return ""
			}
			if !edApplied {
				cr.Probes["op_not_applicable"]++
			}
			cr.Probes["op:par"]++
			cr.Probes["op:par:"+roOp.Op]++
			cr.NonTrivial = true
			if after := roS.doc.String(); after != roBefore {
				cr.violate(prop+"/purity", "text changed by "+roOp.Op+" while another document was edited", firstDiff(after, roBefore))
				return ""
			}
			if roViews != nil {
				after, _ := views(roS.doc)
				if view, d := diffViews(after, roViews); view != "" {
					cr.violate(prop+"/purity", fmt.Sprintf("view=%s changed by %s while another document was edited", view, roOp.Op), d)
					return ""
				}
			}
			// the edit counts whatever the other goroutine was doing
			edOp.Op = edOp.Op + " (while the other session ran " + roOp.Op + ")"
			if !checkAll(step, edOp, "concurrent") {
				return ""
			}
			continue
		}
		if strings.HasPrefix(op.Op, "ro.") {
			// purity: text and views before == after
			before := make([]string, len(sessions))
			beforeViews := make([]map[string]string, len(sessions))
			for si, s2 := range sessions {
				before[si] = s2.doc.String()
				if every {
					beforeViews[si], _ = views(s2.doc)
				}
			}
			applied, masked := applyReadOnly(t, cr, prop, ss, other, op, c.Today)
			cr.Runs++
			if !applied {
				cr.Probes["op_not_applicable"]++
				continue
			}
			cr.Probes["op:"+op.Op]++
			cr.NonTrivial = true
			if masked != "" {
				cr.Masked = "crash"
				cr.observe("read-only operation failed (C14's subject): " + clip(masked, 120))
				return ""
			}
			for si, s2 := range sessions {
				if after := s2.doc.String(); after != before[si] {
					who := ""
					if si != op.S {
						who = " of the other session"
					}
					cr.violate(prop+"/purity", fmt.Sprintf("text%s changed by %s", who, op.Op),
						fmt.Sprintf("step %d: %s (jobs=%d) changed the GEDCOM text of session %d\n%s", step, op.Op, op.Jobs, si, firstDiff(after, before[si])))
					return ""
				}
				if beforeViews[si] != nil {
					after, _ := views(s2.doc)
					if view, d := diffViews(after, beforeViews[si]); view != "" {
						cr.violate(prop+"/purity", fmt.Sprintf("view=%s changed by %s", view, op.Op), fmt.Sprintf("step %d: %s", step, d))
						return ""
					}
				}
			}
			// (in sparse mode too after a read by several goroutines that
			// follows the deletion of records: what such a read leaves in the
			// caches is gone after the next edit)
			if (every || op.Tight > 0) && !checkAll(step, op, "read-only") {
				return ""
			}
			continue
		}
		var applied bool
		var pv string
		func() {
			defer func() {
				if r := recover(); r != nil {
					pv = fmt.Sprint(r)
				}
			}()
			applied = applyEdit(ss, op)
		}()
		cr.Runs++
		if pv != "" {
			cr.Masked = "crash"
			cr.observe("edit panicked: " + op.Op + ": " + clip(pv, 100))
			return ""
		}
		if !applied {
			cr.Probes["op_not_applicable"]++
			continue
		}
		cr.Probes["op:"+op.Op]++
		if strings.HasPrefix(op.Op, "read.") {
			cr.Probes["cache_warmed_by_read"]++
		}
		if every {
			if !checkAll(step, op, "edit") {
				return ""
			}
		}
	}
	if nops > 0 && !every {
		last := ops[nops-1]
		kind := "end of history"
		if !first {
			kind = "end of prefix"
		}
		checkAll(nops-1, last, kind)
		if sparseFail {
			return "sparse-mismatch"
		}
	}
	return ""
}
