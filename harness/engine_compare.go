package harness

// Compare engine: C11 (and the diff part of C14). DESIGN.md §5 C11.

import (
	"bytes"
	"fmt"
	"math/rand/v2"
	"sort"
	"strings"
	"testing"
	"unsafe"

	gedcom "github.com/elliotchance/gedcom/v39"
	"github.com/elliotchance/gedcom/v39/html"
	"simrt"
)

type CompareCfg struct {
	Jobs         int     `json:"jobs"`
	MinWS        float64 `json:"min_ws"`     // -1 = library default
	PreferPtr    float64 `json:"prefer_ptr"` // -1 = library default
	Notifier     string  `json:"notifier,omitempty"`
	NotifierStep int64   `json:"notifier_step,omitempty"`
	DiffPage     bool    `json:"diff_page,omitempty"`
	DiffShow     string  `json:"diff_show,omitempty"`
	DiffSort     string  `json:"diff_sort,omitempty"`
	// WaitNotifier: as "gedcom diff" does, wait until Compare has closed the
	// Notifier before going on (the command blocks in "for range Notifier").
	WaitNotifier bool `json:"wait_notifier,omitempty"`
	// CLI: the case is run through the code of the gedcom diff command
	// itself (engine_cli.go) instead of the library call.
	CLI bool `json:"cli,omitempty"`
	// FlagCase (CLI only): 0 = flag values as documented; 1 = "-sort" value
	// with capitals, 2 = "-show" value in upper case, 3 = an unknown "-sort"
	// value. The command has to refuse 1-3 with a message.
	FlagCase int `json:"flag_case,omitempty"`
	// LeftDrop / RightDrop: indices (into the document's individuals) that are
	// NOT part of the compared list, so that a list is only a part of its
	// document (what Spouses(), Children() or a filtered list are).
	LeftDrop  []int `json:"left_drop,omitempty"`
	RightDrop []int `json:"right_drop,omitempty"`
	// SameObjects: the right list is made of the left document's own
	// individuals (the same node objects), in reverse order.
	SameObjects bool `json:"same_objects,omitempty"`
	// EditUIDs: before the run under test the two documents are compared once
	// (every cache is warm) and then edited through the public API: for each
	// entry k a unique identifier is removed from, or added to, one
	// individual. The oracles judge the comparison of the edited documents.
	EditUIDs []int `json:"edit_uids,omitempty"`
}

func reverseInd(l gedcom.IndividualNodes) gedcom.IndividualNodes {
	out := gedcom.IndividualNodes{}
	for i := len(l) - 1; i >= 0; i-- {
		out = append(out, l[i])
	}
	return out
}

// editUniqueIDs: see CompareCfg.EditUIDs.
func editUniqueIDs(ld, rd *gedcom.Document, ks []int) {
	for _, k := range ks {
		doc, otherDoc := ld, rd
		if k%2 == 1 {
			doc, otherDoc = rd, ld
		}
		inds := doc.Individuals()
		if len(inds) == 0 {
			continue
		}
		x := inds[(k/2)%len(inds)]
		uids := gedcom.NodesWithTag(x, gedcom.UnofficialTagUniqueID)
		switch {
		case len(uids) > 0 && k%3 != 0:
			x.DeleteNode(uids[0])
		case k%3 == 0 && len(otherDoc.Individuals()) > 0:
			// the identifier of somebody on the other side: a new certain match
			y := otherDoc.Individuals()[(k/7)%len(otherDoc.Individuals())]
			if ys := gedcom.NodesWithTag(y, gedcom.UnofficialTagUniqueID); len(ys) > 0 {
				x.AddNode(gedcom.NewNode(gedcom.UnofficialTagUniqueID, ys[0].Value(), ""))
				continue
			}
			fallthrough
		default:
			x.AddNode(gedcom.NewNode(gedcom.UnofficialTagUniqueID, hex32(NewRand(uint64(k)+99)), ""))
		}
	}
}

func dropFrom(list gedcom.IndividualNodes, drop []int) gedcom.IndividualNodes {
	if len(drop) == 0 {
		return list
	}
	skip := map[int]bool{}
	for _, i := range drop {
		skip[i] = true
	}
	out := gedcom.IndividualNodes{}
	for i, x := range list {
		if !skip[i] {
			out = append(out, x)
		}
	}
	return out
}

func genCompareCase(prop, tier string, r *rand.Rand) *Case {
	maxN := 10
	if tier == "thorough" {
		maxN = 14
		if r.IntN(40) == 0 {
			maxN = 45 // n*m > 1000 fills the 1000-slot channels
		}
	}
	n := r.IntN(maxN + 1)
	if maxN == 45 {
		n = 33 + r.IntN(13)
	}
	o := GraphOpts{People: n, UIDProb: pick(r, []float64{0, 0.3, 0.8}), DupUIDProb: pick(r, []float64{0, 0, 0.2}),
		DeathProb: 0.5, BaseYear: 1800, Span: 150}
	left := GenGraph(r, o)
	var right *Graph
	switch r.IntN(8) {
	case 0:
		right = &Graph{} // empty side
	case 1:
		o2 := o
		o2.People = r.IntN(maxN + 1)
		if r.IntN(2) == 0 {
			o2.PtrPrefix = "X"
		}
		right = GenGraph(r, o2) // independent document
	default:
		right = Derive(r, left, o)
	}
	nearTwin := false
	if r.IntN(6) == 0 {
		// two candidates for one individual whose scores differ in the
		// seventh decimal, and nothing else that scores alike: the original
		// under another pointer and without identifiers (it can only be found
		// by comparing) and, in front of it, a twin whose date is one day
		// off. Close is not a tie.
		lg := GenGraph(r, GraphOpts{People: 1 + r.IntN(2), DeathProb: 0.5, BaseYear: 1800, Span: 150, PtrPrefix: "L"})
		rg := GenGraph(r, GraphOpts{People: r.IntN(2), DeathProb: 0.5, BaseYear: 1800, Span: 150, PtrPrefix: "R"})
		l := lg.People[0]
		l.UIDs, l.FSIDs = nil, nil
		exact := fmt.Sprintf("%d %s %d", 1+r.IntN(27), pick(r, months), 1800+r.IntN(150))
		l.Events = []Event{{Tag: "BIRT", Date: exact}}
		p := *l
		p.Ptr = "Q1"
		p.Names = append([]string(nil), l.Names...)
		p.Events = append([]Event(nil), l.Events...)
		p.FamS, p.FamC = nil, nil
		t := p
		t.Ptr = "T9"
		t.Events = []Event{{Tag: "BIRT", Date: shiftOneDay(exact)}}
		rg.People = append([]*Person{&t, &p}, rg.People...)
		left, right = lg, rg
		nearTwin = true
	}
	if r.IntN(10) == 0 && !nearTwin {
		left, right = right, left
	}
	// decodable oddities: two records with one pointer, records without any
	if r.IntN(8) == 0 {
		for _, g := range []*Graph{left, right} {
			for k := r.IntN(3); k > 0 && len(g.People) >= 2; k-- {
				p := pick(r, g.People)
				if r.IntN(3) == 0 {
					p.Ptr = ""
				} else {
					p.Ptr = pick(r, g.People).Ptr
				}
			}
		}
	}
	c := &Case{Prop: prop, Engine: "compare", Docs: []string{left.Text(), right.Text()}}
	c.Compare = &CompareCfg{
		Jobs:      pick(r, []int{0, 1, 2, 2, 3, 3, 8, 16}),
		MinWS:     pick(r, []float64{-1, -1, -1, 0, 0.9, 1}),
		PreferPtr: pick(r, []float64{-1, -1, 0, 1}),
	}
	if nearTwin {
		c.Compare.Jobs = pick(r, []int{2, 3, 3, 8})
		c.Compare.MinWS = -1
	}
	if r.IntN(6) == 0 {
		// lists that are only a part of their documents
		for i := range left.People {
			if r.IntN(3) == 0 {
				c.Compare.LeftDrop = append(c.Compare.LeftDrop, i)
			}
		}
		for i := range right.People {
			if r.IntN(3) == 0 {
				c.Compare.RightDrop = append(c.Compare.RightDrop, i)
			}
		}
	}
	if r.IntN(10) == 0 {
		c.Compare.SameObjects = true
		c.Docs[1] = c.Docs[0]
		c.Compare.RightDrop = nil
	}
	if r.IntN(8) == 0 {
		for k := 1 + r.IntN(3); k > 0; k-- {
			c.Compare.EditUIDs = append(c.Compare.EditUIDs, r.IntN(1000))
		}
	}
	if r.IntN(3) == 0 {
		c.Compare.Notifier = "drain"
		c.Compare.NotifierStep = pick(r, []int64{0, 1, 100})
		// as "gedcom diff" does, wait until Compare has closed the Notifier
		c.Compare.WaitNotifier = r.IntN(2) == 0
	}
	if r.IntN(4) == 0 {
		c.Compare.DiffPage = true
		c.Compare.DiffShow = pick(r, []string{html.DiffPageShowAll, html.DiffPageShowOnlyMatches, html.DiffPageShowSubset})
		c.Compare.DiffSort = pick(r, []string{html.DiffPageSortWrittenName, html.DiffPageSortHighestSimilarity})
		c.Compare.CLI = r.IntN(2) == 0 && len(c.Compare.LeftDrop)+len(c.Compare.RightDrop)+len(c.Compare.EditUIDs) == 0 && !c.Compare.SameObjects
		if c.Compare.CLI && r.IntN(6) == 0 {
			c.Compare.FlagCase = 1 + r.IntN(3)
		}
	}
	c.Sim = GenSim(r)
	return c
}

func compareOptions(cfg *CompareCfg) *gedcom.IndividualNodesCompareOptions {
	o := gedcom.NewIndividualNodesCompareOptions()
	o.Jobs = cfg.Jobs
	if cfg.MinWS >= 0 {
		o.SimilarityOptions.MinimumWeightedSimilarity = cfg.MinWS
	}
	if cfg.PreferPtr >= 0 {
		o.SimilarityOptions.PreferPointerAbove = cfg.PreferPtr
	}
	o.NotifierStep = cfg.NotifierStep
	return o
}

type pairIdx struct{ l, r int } // -1 = absent

type compareRun struct {
	res      simrt.Result
	pairs    []pairIdx
	o1       []string // partition problems
	diffHTML []byte
}

// runCompare executes one simulated Compare (plus, optionally, the diff page)
// on freshly decoded documents.
func runCompare(t *testing.T, cr *CaseResult, prop string, c *Case, cfg CompareCfg, sim simrt.Config) (*compareRun, bool) {
	ld, err1 := decode(c.Docs[0])
	rd, err2 := decode(c.Docs[1])
	if err1 != nil || err2 != nil {
		return nil, false
	}
	labels := map[unsafe.Pointer]int{}
	n := labelDoc(labels, ld, 0)
	labelDoc(labels, rd, n+1000)
	sim.Labels = labels
	sim.Today = parseToday(c.Today)

	if len(cfg.EditUIDs) > 0 {
		warm := &CaseResult{Prop: prop, Probes: map[string]int64{}, Counters: map[string]int64{}}
		runSim(t, warm, prop, simrt.Config{Mode: "default", MapOrder: "identity", Labels: labels}, func() {
			ld.Individuals().Compare(rd.Individuals(), gedcom.NewIndividualNodesCompareOptions())
		})
		cr.Runs++
		editUniqueIDs(ld, rd, cfg.EditUIDs)
		cr.count("history.edit_after_first_compare", int64(len(cfg.EditUIDs)))
	}
	left, right := dropFrom(ld.Individuals(), cfg.LeftDrop), dropFrom(rd.Individuals(), cfg.RightDrop)
	if cfg.SameObjects {
		right = reverseInd(dropFrom(ld.Individuals(), cfg.RightDrop))
	}
	lidx := map[*gedcom.IndividualNode]int{}
	ridx := map[*gedcom.IndividualNode]int{}
	for i, x := range left {
		lidx[x] = i
	}
	for i, x := range right {
		ridx[x] = i
	}

	var result gedcom.IndividualComparisons
	var diffBuf bytes.Buffer
	var progressSeen int
	run := &compareRun{}
	run.res, _ = runSim(t, cr, prop, sim, func() {
		opts := compareOptions(&cfg)
		var notifierClosed chan struct{}
		if cfg.Notifier == "drain" {
			ch := make(chan gedcom.Progress)
			opts.Notifier = ch
			notifierClosed = make(chan struct{})
			simrt.Go("harness:notifier", func() {
				for {
					simrt.Yield("harness:notifier.recv")
					_, ok := <-ch
					simrt.Yield("harness:notifier.recv+")
					if !ok {
						simrt.Yield("harness:notifier.closed")
						close(notifierClosed)
						return
					}
					progressSeen++
				}
			})
		}
		result = left.Compare(right, opts)
		if cfg.WaitNotifier && notifierClosed != nil {
			simrt.Yield("harness:wait-notifier")
			<-notifierClosed
			simrt.Yield("harness:wait-notifier+")
		}
		if cfg.DiffPage {
			// as "gedcom diff" does: the same options object, a drained
			// progress channel
			progress := make(chan gedcom.Progress)
			done := make(chan struct{})
			simrt.Go("harness:diffprogress", func() {
				for {
					simrt.Yield("harness:diffprogress.recv")
					_, ok := <-progress
					simrt.Yield("harness:diffprogress.recv+")
					if !ok {
						close(done)
						return
					}
				}
			})
			page := html.NewDiffPage(result, &gedcom.FilterFlags{}, "", cfg.DiffShow, cfg.DiffSort,
				progress, opts, html.LivingVisibilityShow)
			page.WriteHTMLTo(&diffBuf)
			simrt.Yield("harness:diffprogress.close")
			close(progress)
			simrt.Yield("harness:diffprogress.done")
			<-done
			simrt.Yield("harness:diffprogress.done+")
		}
	})
	if run.res.Outcome != "completed" || !run.res.RootReturned {
		return run, true
	}
	run.diffHTML = diffBuf.Bytes()

	// O1: partition
	lseen := make([]int, len(left))
	rseen := make([]int, len(right))
	for _, cmp := range result {
		p := pairIdx{-1, -1}
		if cmp.Left != nil {
			if i, ok := lidx[cmp.Left]; ok {
				p.l = i
				lseen[i]++
			} else {
				run.o1 = append(run.o1, "foreign-left")
			}
		}
		if cmp.Right != nil {
			if i, ok := ridx[cmp.Right]; ok {
				p.r = i
				rseen[i]++
			} else {
				run.o1 = append(run.o1, "foreign-right")
			}
		}
		if cmp.Left == nil && cmp.Right == nil {
			run.o1 = append(run.o1, "empty-entry")
		}
		run.pairs = append(run.pairs, p)
	}
	for _, k := range lseen {
		if k == 0 {
			run.o1 = append(run.o1, "left-missing")
		} else if k > 1 {
			run.o1 = append(run.o1, "left-matched-twice")
		}
	}
	for _, k := range rseen {
		if k == 0 {
			run.o1 = append(run.o1, "right-missing")
		} else if k > 1 {
			run.o1 = append(run.o1, "right-matched-twice")
		}
	}
	return run, true
}

func pairSet(ps []pairIdx) string {
	var s []string
	for _, p := range ps {
		s = append(s, fmt.Sprintf("%d:%d", p.l, p.r))
	}
	sort.Strings(s)
	return strings.Join(s, " ")
}

// compareReference holds sequential facts computed on cold, private copies.
type compareReference struct {
	left, right gedcom.IndividualNodes
	opts        gedcom.SimilarityOptions
	uidL, uidR  [][]string
	full        map[pairIdx]float64
}

func newCompareReference(c *Case, cfg *CompareCfg) *compareReference {
	ld, _ := decode(c.Docs[0])
	rd, _ := decode(c.Docs[1])
	if len(cfg.EditUIDs) > 0 {
		// the same edits on cold copies (the text is what counts)
		editUniqueIDs(ld, rd, cfg.EditUIDs)
		ld, _ = decode(ld.String())
		rd, _ = decode(rd.String())
	}
	ref := &compareReference{left: dropFrom(ld.Individuals(), cfg.LeftDrop), right: dropFrom(rd.Individuals(), cfg.RightDrop), full: map[pairIdx]float64{}}
	if cfg.SameObjects {
		ld2, _ := decode(ld.String())
		ref.right = reverseInd(dropFrom(ld2.Individuals(), cfg.RightDrop))
	}
	ref.opts = compareOptions(cfg).SimilarityOptions
	for _, x := range ref.left {
		ref.uidL = append(ref.uidL, x.UniqueIdentifiers().Strings())
	}
	for _, x := range ref.right {
		ref.uidR = append(ref.uidR, x.UniqueIdentifiers().Strings())
	}
	return ref
}

func (ref *compareReference) shareUID(l, r int) bool {
	for _, a := range ref.uidL[l] {
		for _, b := range ref.uidR[r] {
			if a == b {
				return true
			}
		}
	}
	return false
}

func (ref *compareReference) fullScore(l, r int) float64 {
	k := pairIdx{l, r}
	if v, ok := ref.full[k]; ok {
		return v
	}
	v := ref.left[l].SurroundingSimilarity(ref.right[r], ref.opts, true).WeightedSimilarity()
	ref.full[k] = v
	return v
}

// ambiguous reports whether the sequential result is not uniquely determined:
// a score tie among candidate pairs. Unique identifiers that connect one
// individual with two different partners were counted as a tie too until the
// library decided them in the order of the left side (they are only counted
// by the probe now): the property excuses score ties only.
func (ref *compareReference) ambiguous(cr *CaseResult) bool {
	amb := false
	// unique identifier ties
	for l := range ref.left {
		k := 0
		for r := range ref.right {
			if ref.shareUID(l, r) {
				k++
			}
		}
		if k > 1 {
			cr.Probes["unique_id_tie"]++
		}
	}
	for r := range ref.right {
		k := 0
		for l := range ref.left {
			if ref.shareUID(l, r) {
				k++
			}
		}
		if k > 1 {
			cr.Probes["unique_id_tie"]++
		}
	}
	// score ties among candidates (scores as the pipeline computes them)
	seen := map[float64]bool{}
	for l := range ref.left {
		for r := range ref.right {
			s := ref.left[l].SurroundingSimilarity(ref.right[r], ref.opts, false).WeightedSimilarity()
			if s < ref.opts.MinimumWeightedSimilarity {
				continue
			}
			if seen[s] {
				amb = true
			}
			seen[s] = true
		}
	}
	if amb {
		cr.Probes["score_tie_skipped"]++
	}
	return amb
}

func runCompareCase(t *testing.T, c *Case) *CaseResult {
	cr := &CaseResult{Prop: c.Prop, Probes: map[string]int64{}, Counters: map[string]int64{}}
	if len(c.Docs) != 2 || c.Compare == nil {
		return cr
	}
	cfg := *c.Compare
	if cfg.CLI {
		return runDiffCLI(t, c, cr)
	}
	run, ok := runCompare(t, cr, c.Prop, c, cfg, c.Sim)
	if !ok {
		return cr // documents do not decode: not a case for this engine
	}
	cr.Valid = true
	cr.Recorded = &run.res.Recorded
	cr.Trace = run.res.Trace
	if cfg.Jobs > 1 {
		cr.Probes["jobs>1"]++
	}
	if len(cfg.LeftDrop)+len(cfg.RightDrop) > 0 {
		cr.Probes["list_is_part_of_document"]++
	}
	if cfg.SameObjects {
		cr.Probes["same_objects_on_both_sides"]++
	}
	if len(cfg.EditUIDs) > 0 {
		cr.Probes["edited_after_first_compare"]++
	}
	for _, text := range c.Docs {
		seen := map[string]bool{}
		for _, line := range strings.Split(text, "\n") {
			if strings.HasSuffix(line, " INDI") || line == "0 INDI" {
				if seen[line] || line == "0 INDI" {
					cr.Probes["duplicate_or_no_pointer"]++
					break
				}
				seen[line] = true
			}
		}
	}

	switch run.res.Outcome {
	case "completed":
	case "crash":
		sig := crashSignature(run.res.Crash)
		if c.Prop == "C11" {
			cr.violate("C11/crash", sig, run.res.Crash.Value+"\n"+run.res.Crash.Stack)
		} else {
			cr.violate(c.Prop+"/crash", "diff: "+sig, run.res.Crash.Value+"\n"+run.res.Crash.Stack)
		}
		return cr
	default:
		var where []string
		for _, l := range run.res.Leaked {
			where = append(where, l.Name+"@"+l.Site+"("+l.State+")")
		}
		cr.violate(c.Prop+"/O5-liveness", run.res.Outcome, strings.Join(where, " "))
		return cr
	}
	if c.Prop != "C11" {
		return cr
	}

	for _, p := range dedupe(run.o1) {
		cr.violate("C11/O1-partition", p, fmt.Sprintf("result pairs (left index:right index): %s", pairSet(run.pairs)))
	}

	// O2: every two-sided entry is justified
	ref := newCompareReference(c, &cfg)
	for _, p := range run.pairs {
		if p.l < 0 || p.r < 0 {
			continue
		}
		if ref.shareUID(p.l, p.r) {
			cr.Probes["matched_by_unique_id"]++
			continue
		}
		full := ref.fullScore(p.l, p.r)
		if ref.left[p.l].Pointer() == ref.right[p.r].Pointer() && full >= ref.opts.PreferPointerAbove {
			cr.Probes["matched_by_pointer"]++
			continue
		}
		if full >= ref.opts.MinimumWeightedSimilarity {
			cr.Probes["matched_by_similarity"]++
			continue
		}
		cr.violate("C11/O2-justification", "unjustified-pair",
			fmt.Sprintf("left #%d %s paired with right #%d %s: weighted similarity %.6f < %.6f, no shared unique id, no trusted pointer",
				p.l, ref.left[p.l].Pointer(), p.r, ref.right[p.r].Pointer(), full, ref.opts.MinimumWeightedSimilarity))
	}

	// O3: schedule independence against the sequential (canonical) run
	if !ref.ambiguous(cr) {
		canonCfg := cfg
		canonCfg.Jobs = 1
		canonCfg.DiffPage = false
		canonCfg.Notifier = ""
		sub := &CaseResult{Prop: c.Prop, Probes: map[string]int64{}, Counters: map[string]int64{}}
		canon, _ := runCompare(t, sub, c.Prop, c, canonCfg, simrt.Config{Mode: "default", MapOrder: "identity"})
		cr.Runs++
		if canon != nil && canon.res.Outcome == "completed" && len(canon.o1) == 0 && len(run.o1) == 0 {
			a, b := pairSet(run.pairs), pairSet(canon.pairs)
			if a != b {
				cr.violate("C11/O3-schedule-independence", "differs-from-sequential",
					fmt.Sprintf("this run:   %s\nsequential: %s", a, b))
			}
			cr.Probes["o3_compared"]++
		}
	}
	return cr
}

func dedupe(xs []string) []string {
	seen := map[string]bool{}
	var out []string
	for _, x := range xs {
		if !seen[x] {
			seen[x] = true
			out = append(out, x)
		}
	}
	sort.Strings(out)
	return out
}
