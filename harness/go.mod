module harness

go 1.26

require (
	github.com/elliotchance/gedcom/v39 v39.0.0
	simrt v0.0.0
)

replace github.com/elliotchance/gedcom/v39 => ../repo

replace simrt => ../simrt
