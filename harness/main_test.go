package harness

import (
	"encoding/json"
	"fmt"
	"os"
	"runtime"
	"runtime/debug"
	"sort"
	"strconv"
	"strings"
	"testing"
	"time"
)

// TestSim is the single entry point the driver (/verif/check) uses.
//
//	SIM_MODE=gen     SIM_PROP SIM_TIER SIM_BASE_SEED SIM_FROM SIM_COUNT
//	SIM_MODE=replay  SIM_CASE=<case.json>
//	SIM_OUT=<jsonl>  SIM_PROGRESS=<file>  SIM_CASEDIR=<dir for failing cases>
func TestSim(t *testing.T) {
	mode := os.Getenv("SIM_MODE")
	if mode == "" {
		t.Skip("driven by /verif/check")
	}
	debug.SetMaxStack(32 << 20) // a runaway recursion dies quickly (the library itself recurses a few hundred frames at most)
	initRaceLog()
	out, err := os.OpenFile(os.Getenv("SIM_OUT"), os.O_CREATE|os.O_WRONLY|os.O_APPEND, 0o644)
	if err != nil {
		t.Fatal(err)
	}
	defer out.Close()
	var progress *os.File
	if p := os.Getenv("SIM_PROGRESS"); p != "" {
		progress, _ = os.OpenFile(p, os.O_CREATE|os.O_WRONLY|os.O_APPEND, 0o644)
		defer progress.Close()
	}
	mark := func(s string) {
		if progress != nil {
			fmt.Fprintln(progress, s)
		}
	}
	emit := func(cr *CaseResult, c *Case) {
		if len(cr.Violations) > 0 || os.Getenv("SIM_KEEP_CASES") != "" {
			if dir := os.Getenv("SIM_CASEDIR"); dir != "" {
				b, _ := json.MarshalIndent(c, "", " ")
				os.WriteFile(fmt.Sprintf("%s/case-%d.json", dir, c.Idx), b, 0o644)
			}
		}
		b, _ := json.Marshal(cr)
		out.Write(append(b, '\n'))
	}

	switch mode {
	case "gen":
		prop := os.Getenv("SIM_PROP")
		tier := os.Getenv("SIM_TIER")
		base, _ := strconv.ParseUint(os.Getenv("SIM_BASE_SEED"), 10, 64)
		from, _ := strconv.Atoi(os.Getenv("SIM_FROM"))
		count, _ := strconv.Atoi(os.Getenv("SIM_COUNT"))
		stride, _ := strconv.Atoi(os.Getenv("SIM_STRIDE"))
		if stride <= 0 {
			stride = 1
		}
		deadline := time.Time{}
		if s, _ := strconv.Atoi(os.Getenv("SIM_WALL_S")); s > 0 {
			deadline = time.Now().Add(time.Duration(s) * time.Second)
		}
		for k := 0; k < count; k++ {
			idx := from + k*stride
			if !deadline.IsZero() && time.Now().After(deadline) {
				break
			}
			c := GenCase(prop, tier, base, idx)
			if c == nil {
				t.Fatalf("no generator for %s", prop)
			}
			mark(fmt.Sprintf("BEGIN %d", idx))
			cr := runOne(t, c)
			if idx%25 == 7 && len(cr.Violations) == 0 {
				// sampled determinism self-check: the same case once more in
				// this process must give the same event log
				again := runOne(t, GenCase(prop, tier, base, idx))
				cr.Counters["selfcheck.repeated"] = 1
				// (whether the race detector notices a given race can differ
				// between two identical executions - its shadow memory keeps
				// a bounded history - so its reports are not part of this)
				other := 0
				for _, v := range again.Violations {
					if !strings.HasSuffix(v.Oracle, "/race") {
						other++
					}
				}
				if again.EventHash != cr.EventHash || other != 0 {
					cr.Counters["selfcheck.diverged"] = 1
				}
			}
			if k < 3 {
				cr.Sample = sampleOf(c)
			}
			emit(cr, c)
			mark(fmt.Sprintf("END %d", idx))
		}
	case "replay":
		b, err := os.ReadFile(os.Getenv("SIM_CASE"))
		if err != nil {
			t.Fatal(err)
		}
		c := &Case{}
		if err := json.Unmarshal(b, c); err != nil {
			t.Fatal(err)
		}
		mark(fmt.Sprintf("BEGIN %d", c.Idx))
		cr := runOne(t, c)
		emit(cr, c)
		mark(fmt.Sprintf("END %d", c.Idx))
	default:
		t.Fatalf("unknown SIM_MODE %q", mode)
	}
}

// runOne runs a case in its own sub-test: a race report (or a failing
// synctest bubble) fails only that sub-test and the process carries on.
func runOne(t *testing.T, c *Case) *CaseResult {
	var cr *CaseResult
	start := time.Now()
	t.Run(fmt.Sprintf("case-%d", c.Idx), func(t *testing.T) {
		if c.GoMaxProcs > 0 {
			prev := runtime.GOMAXPROCS(c.GoMaxProcs)
			defer runtime.GOMAXPROCS(prev)
		}
		cr = RunCase(t, c)
	})
	if cr == nil {
		cr = &CaseResult{Prop: c.Prop}
		cr.violate(c.Prop+"/harness", "case function did not return", "")
	}
	sort.SliceStable(cr.Violations, func(i, j int) bool {
		a, b := cr.Violations[i], cr.Violations[j]
		if a.Oracle != b.Oracle {
			return a.Oracle < b.Oracle
		}
		return a.Signature < b.Signature
	})
	cr.Idx = c.Idx
	cr.Seed = c.Seed
	cr.CaseHash = hashCase(c)
	cr.WallMs = time.Since(start).Milliseconds()
	if cr.Counters == nil {
		cr.Counters = map[string]int64{}
	}
	if cr.Probes == nil {
		cr.Probes = map[string]int64{}
	}
	return cr
}

// TestDumpCase regenerates one generated case as a case file (used by the
// driver when a worker process died inside a case).
func TestDumpCase(t *testing.T) {
	path := os.Getenv("SIM_DUMP")
	if path == "" {
		t.Skip("driven by /verif/check")
	}
	base, _ := strconv.ParseUint(os.Getenv("SIM_BASE_SEED"), 10, 64)
	idx, _ := strconv.Atoi(os.Getenv("SIM_FROM"))
	c := GenCase(os.Getenv("SIM_PROP"), os.Getenv("SIM_TIER"), base, idx)
	if c == nil {
		t.Fatal("no generator")
	}
	b, _ := json.MarshalIndent(c, "", " ")
	if err := os.WriteFile(path, b, 0o644); err != nil {
		t.Fatal(err)
	}
}

// TestFreshPublish is the child side of the "fresh process" history variant.
func TestFreshPublish(t *testing.T) {
	if os.Getenv("SIM_FRESH_CASE") == "" {
		t.Skip("driven by the publish engine")
	}
	RunFreshPublish(t)
}
