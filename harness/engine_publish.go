package harness

// Publish engine: C19 (closed, confined, deterministic file set; writer
// faults), C17 (living people), the publish part of C14. DESIGN.md §5.

import (
	"bytes"
	"crypto/sha256"
	"encoding/hex"
	"encoding/json"
	"errors"
	"fmt"
	stdhtml "html"
	"math/rand/v2"
	"net/url"
	"os"
	"os/exec"
	"regexp"
	"runtime"
	"sort"
	"strings"
	"syscall"
	"testing"
	"unsafe"

	gedcom "github.com/elliotchance/gedcom/v39"
	"github.com/elliotchance/gedcom/v39/html"
	"github.com/elliotchance/gedcom/v39/html/core"
	"simrt"
)

type PubOptions struct {
	Individuals bool   `json:"individuals"`
	Places      bool   `json:"places"`
	Families    bool   `json:"families"`
	Surnames    bool   `json:"surnames"`
	Sources     bool   `json:"sources"`
	Statistics  bool   `json:"statistics"`
	Visibility  string `json:"visibility"`
	// MaxLivingAgeZero: Document.MaxLivingAge is set to 0 ("never dead
	// without a death event") before publishing.
	MaxLivingAgeZero bool `json:"max_living_age_zero,omitempty"`
	// NameLimit: file-name length limit of the simulated file system (the
	// library's own DirectoryFileWriter meets ENAMETOOLONG at 255 bytes on
	// every common file system). 0 = no limit. Not a library option.
	NameLimit int `json:"name_limit,omitempty"`
	// Spelling (C17): the visibility is handed to html.NewLivingVisibility in
	// this spelling ("Hide", "HIDE ", "Placeholder"). The library may refuse
	// it; if it accepts it, it has to act as the mode named by Visibility.
	Spelling string `json:"spelling,omitempty"`
	// staleDir: see PubVariant.StaleDir (set per variant, not part of the case)
	staleDir bool
	// fullName: see PubVariant.FullDisk
	fullName string
}

func (o PubOptions) spelled() string {
	if o.Spelling != "" {
		return o.Spelling
	}
	return o.Visibility
}

func (o PubOptions) lib() *html.PublishShowOptions {
	return &html.PublishShowOptions{
		ShowIndividuals: o.Individuals, ShowPlaces: o.Places, ShowFamilies: o.Families,
		ShowSurnames: o.Surnames, ShowSources: o.Sources, ShowStatistics: o.Statistics,
		LivingVisibility: html.NewLivingVisibility(o.spelled()),
	}
}

type PubVariant struct {
	Jobs int          `json:"jobs"`
	Sim  simrt.Config `json:"sim"`
	// Prior: publish this document index (of Case.Docs) first, in the same
	// process, with PriorOptions; -1 = none.
	Prior        int         `json:"prior"`
	PriorOptions *PubOptions `json:"prior_options,omitempty"`
	// PriorFaults: disk faults of the earlier publish (which then ends early)
	PriorFaults []DiskFault `json:"prior_faults,omitempty"`
	// SameObject: the earlier publish uses the very same *gedcom.Document
	// value as the publish under test (Prior must be 0).
	SameObject bool `json:"same_object,omitempty"`
	// SameOptions: the earlier publish (of Docs[Prior], or of an empty
	// document when Prior < 0) and the publish under test share one
	// *html.PublishShowOptions value.
	SameOptions bool `json:"same_options,omitempty"`
	// Interleaved (with SameOptions): the other publisher is only CREATED
	// (html.NewPublisher) after the publisher under test and before the
	// latter publishes; it never publishes itself.
	Interleaved bool `json:"interleaved,omitempty"`
	// Edits: API edits applied to the shared Document value between the
	// earlier publish and the publish under test (SameObject variants).
	Edits []PubEdit `json:"edits,omitempty"`
	// RealWriter: the publish under test goes through the library's own
	// DirectoryFileWriter into a temporary directory instead of the
	// simulated disk; the files are read back afterwards.
	RealWriter bool `json:"real_writer,omitempty"`
	// StaleDir (with RealWriter): the output directory already holds an
	// older, longer version of every page when the publish under test runs.
	StaleDir bool `json:"stale_dir,omitempty"`
	// Republish: one Publisher publishes twice (to two writers); the second
	// site is the one that is judged.
	Republish bool `json:"republish,omitempty"`
	// FullDisk (with RealWriter): one page of the site (chosen by the
	// variant's seed) is a symbolic link to /dev/full in the output
	// directory, so writing it fails inside the library's own writer the way
	// a full disk fails: Publish has to return an error.
	FullDisk bool `json:"full_disk,omitempty"`
}

type PubEdit struct {
	Ptr string `json:"ptr"`
	Op  string `json:"op"` // "adddeath" | "deldeath"
}

func applyPubEdits(doc *gedcom.Document, edits []PubEdit) {
	for _, e := range edits {
		ind, ok := doc.NodeByPointer(e.Ptr).(*gedcom.IndividualNode)
		if !ok || ind == nil {
			continue
		}
		switch e.Op {
		case "adddeath":
			ind.AddDeathDate("2 Feb 1999")
		case "deldeath":
			gedcom.DeleteNodesWithTag(ind, gedcom.TagDeath)
		}
	}
}

type DiskFault struct {
	// Kind: "fail_call" (the call fails before anything is written) or
	// "fail_body" (the device takes B bytes of the page, then the write is
	// short and fails: a disk that fills up in the middle of a file)
	Kind   string `json:"kind"`
	K      int    `json:"k"` // 1-based WriteFile call
	Sticky bool   `json:"sticky"`
	Jobs   int    `json:"jobs"`
	B      int    `json:"b,omitempty"`
}

// fullAfter is a device that fills up: it takes left bytes, then every write
// is short and fails.
type fullAfter struct {
	buf  *bytes.Buffer
	left int
	err  error
}

func (w *fullAfter) Write(p []byte) (int, error) {
	if len(p) <= w.left {
		w.left -= len(p)
		return w.buf.Write(p)
	}
	n := w.left
	w.buf.Write(p[:n])
	w.left = 0
	w.err = &os.PathError{Op: "write", Path: "page", Err: syscall.ENOSPC}
	return n, w.err
}

//go:norace
func (d *Disk) bodyFired() { d.fired++ }

// bodyFault: the fail_body fault for call k, if any.
//
//go:norace
func (d *Disk) bodyFault(k int) (b int, ok bool) {
	for _, f := range d.faults {
		if f.Kind == "fail_body" && f.K == k {
			return f.B, true
		}
	}
	return 0, false
}

type LivingInfo struct {
	Ptr    string   `json:"ptr"`
	Living bool     `json:"living"`
	Tokens []string `json:"tokens"` // private marker tokens of this person
	Names  []string `json:"names"`  // name tokens (must appear for non-living people)
}

type PublishCfg struct {
	Options  PubOptions   `json:"options"`
	Jobs     int          `json:"jobs"`
	Variants []PubVariant `json:"variants,omitempty"`
	Faults   []DiskFault  `json:"faults,omitempty"`
	// FreshProcess: also run the canonical publish in a fresh process and
	// compare (process-history independence).
	FreshProcess bool         `json:"fresh_process,omitempty"`
	People       []LivingInfo `json:"people,omitempty"`
	// EditedBetween: the document is edited between two publishes (People
	// describes the final state; the D/D' comparison does not apply)
	EditedBetween bool `json:"edited_between,omitempty"`
}

// ---------------------------------------------------------------------------
// simulated disk

type DiskEvent struct {
	Seq  int
	Name string
	Kind string // Go type of the page component
	Data []byte
	Err  string
}

var errDisk = errors.New("simulated disk: write failed")

// Disk implements core.FileWriter. It is shared by all publish workers, so
// every access to its own state happens in norace code without any
// synchronisation of its own: it must not add happens-before edges between
// the workers (that would hide races of the code under test). Physical safety
// comes from the simulator, which runs one goroutine at a time.
type Disk struct {
	faults []DiskFault
	calls  int
	failed bool
	events []DiskEvent
	fired  int
	// returnedAt: number of WriteFile calls that had started when Publish
	// returned (-1 while it is running)
	returnedAt int
	nameLimit  int
	nfail      int
}

var errNameTooLong = fmt.Errorf("simulated disk: file name too long")

//go:norace
func (d *Disk) markReturned() { d.returnedAt = d.calls }

// failures counts the failing calls so far, this one included.
//
//go:norace
func (d *Disk) failures() int {
	d.nfail++
	return d.nfail
}

//go:norace
func (d *Disk) next() (k int, fail bool) {
	d.calls++
	k = d.calls
	if d.failed {
		return k, true
	}
	for _, f := range d.faults {
		if f.Kind == "fail_call" && f.K == k {
			if f.Sticky {
				d.failed = true
			}
			d.fired++
			return k, true
		}
	}
	return k, false
}

//go:norace
func (d *Disk) record(k int, name, kind string, data []byte, err string) {
	d.events = append(d.events, DiskEvent{Seq: k, Name: strings.Clone(name), Kind: kind, Data: append([]byte(nil), data...), Err: err})
}

func componentKind(c core.Component) string {
	k := fmt.Sprintf("%T", c)
	k = strings.TrimPrefix(k, "*html.")
	return k
}

func (d *Disk) WriteFile(f *core.File) error {
	simrt.Yield("disk:write") // a slow disk is just more scheduling points
	k, fail := d.next()
	if !fail && d.nameLimit > 0 && len(f.Name) > d.nameLimit {
		d.record(k, f.Name, componentKind(f.Component), nil, errNameTooLong.Error())
		simrt.Yield("disk:write+")
		return errNameTooLong
	}
	if fail {
		// what a real disk does: the failure itself is a *os.PathError, a
		// writer that stays broken answers with some other error afterwards
		var err error = errDisk
		if d.failures() == 1 {
			err = &os.PathError{Op: "open", Path: strings.Clone(f.Name), Err: syscall.ENOSPC}
		}
		d.record(k, f.Name, componentKind(f.Component), nil, err.Error())
		simrt.Yield("disk:write+")
		return err
	}
	var buf bytes.Buffer
	var err error
	if b, ok := d.bodyFault(k); ok {
		// as the library's own directory writer does: the components panic
		// with the error of a failed write (core.appendString), it is the
		// error of this file; anything else goes on as a panic
		dev := &fullAfter{buf: &buf, left: b}
		func() {
			defer func() {
				if r := recover(); r != nil {
					werr, isError := r.(error)
					if _, isRuntime := r.(runtime.Error); !isError || isRuntime {
						panic(r)
					}
					err = werr
				}
			}()
			_, err = f.Component.WriteHTMLTo(dev)
		}()
		if err == nil && dev.err != nil {
			// a component that lost the error: the writer still knows
			err = dev.err
		}
		if dev.err != nil {
			// (a page shorter than b bytes fits: no fault happened)
			d.bodyFired()
		}
		e := ""
		if err != nil {
			e = err.Error()
		}
		d.record(k, f.Name, componentKind(f.Component), buf.Bytes(), e)
		simrt.Yield("disk:write+")
		return err
	}
	_, err = f.Component.WriteHTMLTo(&buf)
	e := ""
	if err != nil {
		e = err.Error()
	}
	d.record(k, f.Name, componentKind(f.Component), buf.Bytes(), e)
	simrt.Yield("disk:write+")
	return err
}

// ---------------------------------------------------------------------------
// one simulated publish

type pubRun struct {
	res    simrt.Result
	err    error
	events []DiskEvent
	files  map[string][]byte
	kinds  map[string]string
	dups   [][2]string // (name, "KindA x KindB")
	fired  int
	// lateWrites: WriteFile calls that started after Publish had returned
	lateWrites int
}

func runPublish(t *testing.T, cr *CaseResult, prop string, text string, opts PubOptions, jobs int, sim simrt.Config, today string, faults []DiskFault) (*pubRun, bool) {
	doc, err := decode(text)
	if err != nil {
		return nil, false
	}
	return runPublishDoc(t, cr, prop, doc, opts, jobs, sim, today, faults)
}

// runPublishDoc publishes an already decoded document (used when two
// publishes have to share one *gedcom.Document value).
func runPublishDoc(t *testing.T, cr *CaseResult, prop string, doc *gedcom.Document, opts PubOptions, jobs int, sim simrt.Config, today string, faults []DiskFault) (*pubRun, bool) {
	return runPublishWith(t, cr, prop, doc, opts, nil, false, jobs, sim, today, faults)
}

// runPublishWith: lib != nil publishes with that options object (shared with
// an earlier publish); real publishes through core.DirectoryFileWriter.
func runPublishWith(t *testing.T, cr *CaseResult, prop string, doc *gedcom.Document, opts PubOptions, lib *html.PublishShowOptions, real bool, jobs int, sim simrt.Config, today string, faults []DiskFault) (*pubRun, bool) {
	labels := map[unsafe.Pointer]int{}
	labelDoc(labels, doc, 0)
	sim.Labels = labels
	sim.Today = parseToday(today)
	if opts.MaxLivingAgeZero {
		doc.MaxLivingAge = 0
	}
	disk := &Disk{faults: faults, returnedAt: -1, nameLimit: opts.NameLimit}
	run := &pubRun{}
	var perr error
	if lib == nil {
		lib = opts.lib()
	}
	dir := ""
	if real {
		d, err := os.MkdirTemp("", "verif-publish-")
		if err != nil {
			return nil, false
		}
		dir = d
		defer os.RemoveAll(dir)
	}
	run.res, _ = runSim(t, cr, prop, sim, func() {
		publisher := html.NewPublisher(doc, lib)
		if real {
			if opts.staleDir {
				// an earlier publish into the same directory, whose pages
				// were longer than the ones written now
				html.NewPublisher(doc, lib).Publish(core.NewDirectoryFileWriter(dir), 1)
				entries, _ := os.ReadDir(dir)
				for _, e := range entries {
					if f, err := os.OpenFile(dir+"/"+e.Name(), os.O_APPEND|os.O_WRONLY, 0o644); err == nil {
						f.WriteString("\n<!-- the rest of an older, longer page -->\n")
						f.Close()
					}
				}
			}
			if opts.fullName != "" {
				os.Symlink("/dev/full", dir+"/"+opts.fullName)
			}
			perr = publisher.Publish(core.NewDirectoryFileWriter(dir), jobs)
			return
		}
		perr = publisher.Publish(disk, jobs)
		disk.markReturned()
	})
	if disk.returnedAt >= 0 && disk.calls > disk.returnedAt {
		run.lateWrites = disk.calls - disk.returnedAt
	}
	run.err = perr
	run.events = disk.events
	run.fired = disk.fired
	if real {
		// read the directory back as if it had been the recorded history
		entries, _ := os.ReadDir(dir)
		for i, e := range entries {
			if e.Type()&os.ModeSymlink != 0 {
				continue // the link to /dev/full: reading it never ends
			}
			data, err := os.ReadFile(dir + "/" + e.Name())
			if err == nil {
				run.events = append(run.events, DiskEvent{Seq: i + 1, Name: e.Name(), Kind: "file", Data: data})
			}
		}
	}
	run.files = map[string][]byte{}
	run.kinds = map[string]string{}
	for _, e := range run.events {
		if e.Err != "" {
			continue
		}
		if _, ok := run.files[e.Name]; ok {
			ks := []string{run.kinds[e.Name], e.Kind}
			sort.Strings(ks)
			run.dups = append(run.dups, [2]string{e.Name, ks[0] + " x " + ks[1]})
		}
		run.files[e.Name] = e.Data
		run.kinds[e.Name] = e.Kind
	}
	return run, true
}

func fileDigest(files map[string][]byte) map[string]string {
	out := map[string]string{}
	for k, v := range files {
		h := sha256.Sum256(v)
		out[k] = hex.EncodeToString(h[:8])
	}
	return out
}

func diffFiles(a, b map[string][]byte, skip ...map[string]bool) string {
	if len(skip) > 0 {
		a2, b2 := map[string][]byte{}, map[string][]byte{}
		for k, v := range a {
			a2[k] = v
		}
		for k, v := range b {
			b2[k] = v
		}
		for _, sk := range skip {
			for k := range sk {
				delete(a2, k)
				delete(b2, k)
			}
		}
		a, b = a2, b2
	}
	var names []string
	for k := range a {
		names = append(names, k)
	}
	for k := range b {
		if _, ok := a[k]; !ok {
			names = append(names, k)
		}
	}
	sort.Strings(names)
	for _, n := range names {
		x, okx := a[n]
		y, oky := b[n]
		switch {
		case !okx:
			return fmt.Sprintf("file %q only in the second run", n)
		case !oky:
			return fmt.Sprintf("file %q only in the first run", n)
		case !bytes.Equal(x, y):
			i := 0
			for i < len(x) && i < len(y) && x[i] == y[i] {
				i++
			}
			lo := i - 60
			if lo < 0 {
				lo = 0
			}
			hx, hy := i+60, i+60
			if hx > len(x) {
				hx = len(x)
			}
			if hy > len(y) {
				hy = len(y)
			}
			return fmt.Sprintf("file %q differs at byte %d:\n  first:  …%s…\n  second: …%s…", n, i, x[lo:hx], y[lo:hy])
		}
	}
	return ""
}

// diffClass abstracts a file difference into a stable signature.
func diffClass(a, b map[string][]byte) string {
	onlyNames := false
	for k := range a {
		if _, ok := b[k]; !ok {
			onlyNames = true
		}
	}
	for k := range b {
		if _, ok := a[k]; !ok {
			onlyNames = true
		}
	}
	if onlyNames {
		return "file-set-differs"
	}
	return "file-content-differs"
}

// ---------------------------------------------------------------------------
// static oracles on a file set

var hrefRe = regexp.MustCompile(`href="([^"]*)"`)
var locRe = regexp.MustCompile(`location\.href='([^']*)'`)

func pageKind(name string) string {
	switch {
	case strings.HasPrefix(name, "individuals-"):
		return "individual-list"
	case name == "places.html", name == "families.html", name == "surnames.html", name == "sources.html", name == "statistics.html":
		return strings.TrimSuffix(name, ".html")
	}
	return "entity-page"
}

func checkConfinement(cr *CaseResult, prop string, events []DiskEvent) {
	for _, e := range events {
		n := e.Name
		bad := ""
		switch {
		case n == "":
			bad = "empty"
		case n == "." || n == "..":
			bad = "dot"
		case strings.ContainsAny(n, "/\\"):
			bad = "path-separator"
		case strings.ContainsRune(n, 0):
			bad = "nul"
		}
		if bad != "" {
			cr.violate(prop+"/confinement", "file name: "+bad, fmt.Sprintf("file name %q handed to the file writer", n))
		}
	}
}

func checkCollisions(cr *CaseResult, prop string, run *pubRun) {
	for _, d := range run.dups {
		cr.violate(prop+"/collision", "two pages share a file name: "+collisionClass(d[1]),
			fmt.Sprintf("file name %q written more than once (%s); all collisions: %q", d[0], d[1], run.dups))
	}
}

// collisionClass groups the colliding page kinds by cause; anything that is
// not one of the understood causes keeps the exact pair of kinds.
func collisionClass(pair string) string {
	if strings.Contains(pair, "SourcePage") {
		return "the page of a source (named after its pointer) and another page"
	}
	return pair
}

func (run *pubRun) collided() map[string]bool {
	m := map[string]bool{}
	for _, d := range run.dups {
		m[d[0]] = true
	}
	return m
}

func linkTargets(page []byte) []string {
	var out []string
	for _, m := range hrefRe.FindAllSubmatch(page, -1) {
		out = append(out, string(m[1]))
	}
	for _, m := range locRe.FindAllSubmatch(page, -1) {
		out = append(out, string(m[1]))
	}
	return out
}

func isExternal(t string) bool {
	l := strings.ToLower(t)
	return strings.HasPrefix(l, "http://") || strings.HasPrefix(l, "https://") || strings.HasPrefix(l, "//") ||
		strings.HasPrefix(l, "mailto:")
}

var fixedPages = map[string]string{"places.html": "places", "families.html": "families", "surnames.html": "surnames",
	"sources.html": "sources", "statistics.html": "statistics"}

// danglingCause classifies a dangling link, so that a known cause does not
// hide a new one.
func danglingCause(target string, opts PubOptions, indivKeys map[string]bool) string {
	key := strings.TrimSuffix(target, ".html")
	base := key
	if i := strings.LastIndex(key, "-"); i > 0 {
		if _, err := fmt.Sscanf(key[i+1:], "%d", new(int)); err == nil {
			base = key[:i]
		}
	}
	if !opts.Individuals && (indivKeys[key] || indivKeys[base]) {
		return "link to an individual page although individual pages are switched off"
	}
	if g, ok := fixedPages[target]; ok {
		on := map[string]bool{"places": opts.Places, "families": opts.Families, "surnames": opts.Surnames,
			"sources": opts.Sources, "statistics": opts.Statistics}[g]
		if !on {
			return "link to the " + g + " page although that page group is switched off"
		}
		return "link to the " + g + " page that was not generated"
	}
	if strings.HasPrefix(target, "individuals-") {
		if !opts.Individuals {
			return "link to an individual list page although individual pages are switched off"
		}
		letter := strings.TrimSuffix(strings.TrimPrefix(target, "individuals-"), ".html")
		if len(letter) == 1 && letter[0] >= 'a' && letter[0] <= 'z' || letter == "symbol" {
			return "link to an individual list page that was not generated"
		}
		return "surname link to a list page for a first byte that is not a-z"
	}
	if indivKeys[key] {
		return "link to an individual page that was not generated"
	}
	if base != key {
		return "link with a uniqueness suffix (-N) that no generated page has"
	}
	return "unclassified"
}

func checkClosure(cr *CaseResult, prop string, files map[string][]byte, kinds map[string]string, opts PubOptions, indivKeys map[string]bool) {
	var names []string
	for n := range files {
		names = append(names, n)
	}
	sort.Strings(names)
	for _, name := range names {
		data := files[name]
		for _, raw := range linkTargets(data) {
			t := stdhtml.UnescapeString(raw)
			if isExternal(t) {
				continue
			}
			if i := strings.Index(t, "#"); i >= 0 {
				t = t[:i]
			}
			if t == "" {
				continue // inert '#'
			}
			if _, ok := files[t]; ok {
				continue
			}
			if u, err := url.PathUnescape(t); err == nil {
				if _, ok := files[u]; ok {
					continue
				}
			}
			cause := danglingCause(t, opts, indivKeys)
			sig := "dangling link: " + cause
			if cause == "unclassified" {
				sig += " (from " + kinds[name] + ")"
			}
			cr.violate(prop+"/closure", sig,
				fmt.Sprintf("page %q (%s) links to %q which is not a generated file", name, kinds[name], raw))
		}
	}
}

// individualKeys: the page keys individuals can get (with and without the
// uniqueness suffix), only used to classify dangling links.
func individualKeys(text string) map[string]bool {
	keys := map[string]bool{}
	doc, err := decode(text)
	if err != nil {
		return keys
	}
	defer func() { recover() }()
	for k := range html.GetIndividuals(doc, nil) {
		keys[k] = true
	}
	return keys
}

// ---------------------------------------------------------------------------
// C19 case

func hostileGraph(r *rand.Rand, tier string) *Graph {
	maxN := 8
	if tier == "thorough" {
		maxN = 14
		if r.IntN(30) == 0 {
			maxN = 40
		}
	}
	o := GraphOpts{People: r.IntN(maxN + 1), DeathProb: 0.6, BaseYear: 1780, Span: 150, Sources: r.IntN(3),
		Notes: true, ExtraEvents: true, UIDProb: 0.2}
	g := GenGraph(r, o)
	hostilePtr := []string{"../x", "a/b", "places", "individuals-a", "x\\y", "..", "sources", "a b", "S 1", "é"}
	for _, s := range g.Sources {
		if r.IntN(3) == 0 {
			s.Ptr = pick(r, hostilePtr)
		}
	}
	// hostile pointers on individuals and families too (references follow)
	rename := map[string]string{}
	for pi, p := range g.People {
		if r.IntN(8) == 0 {
			np := pick(r, hostilePtr) + fmt.Sprint(pi) // (unique: duplicate pointers are C14's subject)
			rename[p.Ptr] = np
			p.Ptr = np
		}
		if r.IntN(10) == 0 {
			p.Names = nil // no NAME at all
		} else if r.IntN(14) == 0 {
			p.Names = []string{""} // empty NAME
		}
	}
	for _, f := range g.Families {
		if n, ok := rename[f.Husb]; ok {
			f.Husb = n
		}
		if n, ok := rename[f.Wife]; ok {
			f.Wife = n
		}
		for i, c := range f.Chil {
			if n, ok := rename[c]; ok {
				f.Chil[i] = n
			}
		}
		if r.IntN(10) == 0 {
			f.Ptr = pick(r, hostilePtr) + "f" + f.Ptr
		}
	}
	// people and places whose names only differ (or do not differ at all)
	// after more than a hundred characters
	if r.IntN(6) == 0 && len(g.People) >= 2 {
		long := strings.Repeat("Maximiliana ", 11) + "/" + strings.Repeat("Wolfeschlegel", 2) + "/" // 160 bytes
		a, b := g.People[0], g.People[len(g.People)-1]
		a.Names = []string{long}
		b.Names = []string{long}
		if r.IntN(2) == 0 {
			b.Names = []string{strings.Replace(long, "/Wolfeschlegel", "/Xolfeschlegel", 1)}
		}
		lp := strings.Repeat("Llanfairpwllgwyngyll ", 7)
		for _, p := range []*Person{a, b} {
			for i := range p.Events {
				if p.Events[i].Place != "" {
					p.Events[i].Place = lp + pick(r, []string{"North, Wales", "South, Wales"})
				}
			}
		}
	}
	// place names that collapse to the same file key
	if r.IntN(4) == 0 {
		variants := pick(r, [][]string{
			{"Sydney, Australia", "SYDNEY, Australia", "Sydney; Australia"},
			{"St. Mary's, Kent, England", "St Mary s, Kent, England"},
			{"Köln, Germany", "K ln, Germany", "K-ln, Germany"},
			{"New York, USA", "new york, usa", "New York,, USA"},
			{"Malmo, Sweden", "Malmö, Sweden", "Malmô, Sweden"},
			{"Aarhus, Denmark", "Åarhus, Denmark", "Áarhus, Denmark"},
		})
		k := 0
		for _, p := range g.People {
			for i := range p.Events {
				if p.Events[i].Place != "" && r.IntN(2) == 0 {
					p.Events[i].Place = variants[k%len(variants)]
					k++
				}
			}
		}
	}
	// two namesakes and a place called like them plus a number
	if len(g.People) >= 2 && r.IntN(6) == 0 {
		a, b := g.People[0], g.People[1]
		if len(a.Names) > 0 && a.Names[0] != "" {
			b.Names = append([]string(nil), a.Names...)
			plain := strings.NewReplacer("/", "").Replace(a.Names[0])
			b.Events = append(b.Events, Event{Tag: "RESI", Date: "1900", Place: strings.TrimSpace(plain) + " " + fmt.Sprint(1+r.IntN(2))})
		}
	}
	for _, p := range g.People {
		switch r.IntN(14) {
		case 0: // same name as somebody else
			if len(g.People) > 1 {
				p.Names = append([]string(nil), pick(r, g.People).Names...)
			}
		case 1: // name that collapses to the key of a place or a fixed page
			p.Names = []string{pick(r, []string{"Sydney NSW /Australia/", "/Places/", "Individuals /A/", "London /England/", "/Families/", "/Statistics/"})}
		case 2: // surname starting with a digit, a symbol, a multi-byte letter
			p.Names = []string{pick(r, givenPool) + " /" + pick(r, []string{"1st", "9", "#hash", "(unknown)", "Élan", "Ångström", "Ñu", "Ölmez", "-dash", "'t Hooft", "_under"}) + "/"}
		case 3:
			p.Names = []string{pick(r, []string{"?", "//", "/ /", "John", "<b>x</b> /<i>y</i>/"})}
		}
	}
	return g
}

func genPubOptions(r *rand.Rand, vis []string) PubOptions {
	o := PubOptions{Visibility: pick(r, vis)}
	if r.IntN(3) == 0 {
		o.Individuals, o.Places, o.Families, o.Surnames, o.Sources, o.Statistics = true, true, true, true, true, true
		return o
	}
	o.Individuals = r.IntN(4) > 0
	o.Places = r.IntN(4) > 0
	o.Families = r.IntN(3) > 0
	o.Surnames = r.IntN(3) > 0
	o.Sources = r.IntN(3) > 0
	o.Statistics = r.IntN(3) > 0
	return o
}

func genPublishCase(prop, tier string, r *rand.Rand) *Case {
	g := hostileGraph(r, tier)
	c := &Case{Prop: prop, Engine: "publish", Docs: []string{g.Text()}}
	cfg := &PublishCfg{Options: genPubOptions(r, []string{"show", "show", "hide", "placeholder"}), Jobs: 1}
	// another document for the history dimension
	other := hostileGraph(r, "quick")
	c.Docs = append(c.Docs, other.Text())
	nv := 2 + r.IntN(2)
	for i := 0; i < nv; i++ {
		v := PubVariant{Jobs: pick(r, []int{1, 2, 2, 8, 16}), Sim: GenSim(r), Prior: -1}
		switch r.IntN(5) {
		case 0:
			v.Prior = 1 // another document first
			po := genPubOptions(r, []string{"show", "placeholder"})
			v.PriorOptions = &po
		case 1:
			v.Prior = 0 // the same document with other options first
			po := genPubOptions(r, []string{"show", "hide", "placeholder"})
			v.PriorOptions = &po
			v.SameObject = r.IntN(2) == 0
		case 2:
			if r.IntN(2) == 0 {
				v.SameOptions = true
				if r.IntN(2) == 0 {
					v.Prior = 1
				}
				v.Interleaved = r.IntN(2) == 0
			} else if r.IntN(3) == 0 {
				v.Republish = true
			} else {
				v.RealWriter = true
				v.StaleDir = r.IntN(2) == 0
				v.FullDisk = !v.StaleDir && r.IntN(2) == 0
				v.Jobs = pick(r, []int{2, 8, 16})
			}
		}
		cfg.Variants = append(cfg.Variants, v)
	}
	cfg.FreshProcess = r.IntN(6) == 0
	// writer faults: K = 0 means "every k" (expanded at run time from the
	// number of files of the fault-free run)
	switch r.IntN(3) {
	case 0:
		cfg.Faults = append(cfg.Faults, DiskFault{Kind: "fail_call", K: 0, Sticky: r.IntN(2) == 0, Jobs: 1})
	case 1:
		cfg.Faults = append(cfg.Faults, DiskFault{Kind: "fail_call", K: 0, Sticky: r.IntN(2) == 0, Jobs: pick(r, []int{2, 8})})
	}
	if r.IntN(4) == 0 {
		// the disk fills up in the middle of the k-th file (every k)
		cfg.Faults = append(cfg.Faults, DiskFault{Kind: "fail_body", K: 0, B: r.IntN(3000), Jobs: pick(r, []int{1, 1, 2, 8})})
	}
	c.Publish = cfg
	c.Sim = simrt.Config{Mode: "default", MapOrder: "identity", Seed: r.Uint64()}
	c.Today = pick(r, []string{"", "", "2000-06-15", "2000-12-31", "2025-03-01"})
	return c
}

func outcomeViolation(cr *CaseResult, prop string, res *simrt.Result, what string) bool {
	switch res.Outcome {
	case "completed":
		return false
	case "crash":
		cr.Masked = "crash"
		if prop == "C14" {
			cr.violate("C14/crash", what+": "+crashSignature(res.Crash), res.Crash.Value+"\n"+res.Crash.Stack)
		} else {
			cr.observe(what + " crashed: " + crashSignature(res.Crash))
		}
		return true
	default:
		var where []string
		for _, l := range res.Leaked {
			where = append(where, l.Name+"@"+l.Site+"("+l.State+")")
		}
		cr.Masked = res.Outcome
		cr.violate(prop+"/liveness", what+": "+res.Outcome, strings.Join(where, " "))
		return true
	}
}

func runPublishCase(t *testing.T, c *Case) *CaseResult {
	cr := &CaseResult{Prop: c.Prop, Probes: map[string]int64{}, Counters: map[string]int64{}}
	if len(c.Docs) < 1 || c.Publish == nil {
		return cr
	}
	if c.Prop == "C17" {
		return runLivingCase(t, c, cr)
	}
	cfg := c.Publish
	prop := c.Prop

	// process history as part of the case: with FreshProcess another document
	// is published before anything else, and the canonical result is later
	// compared with the same publish in a process that never published
	// anything (so the violation replays from the case file alone)
	if cfg.FreshProcess && len(c.Docs) > 1 {
		sub := &CaseResult{Prop: prop, Probes: map[string]int64{}, Counters: map[string]int64{}}
		all := PubOptions{Individuals: true, Places: true, Families: true, Surnames: true, Sources: true, Statistics: true, Visibility: "show"}
		runPublish(t, sub, prop, c.Docs[1], all, 1, simrt.Config{Mode: "default", MapOrder: "identity"}, c.Today, nil)
		cr.Runs++
		cr.count("history.prior_publish", 1)
	}

	// canonical run
	canon, ok := runPublish(t, cr, prop, c.Docs[0], cfg.Options, cfg.Jobs, c.Sim, c.Today, nil)
	if !ok {
		return cr
	}
	cr.Valid = true
	cr.Recorded = &canon.res.Recorded
	if outcomeViolation(cr, prop, &canon.res, "publish") {
		return cr
	}
	if canon.err != nil {
		cr.observe("fault-free publish returned an error: " + canon.err.Error())
	}
	cr.Probes["files"] += int64(len(canon.files))
	if canon.lateWrites > 0 {
		cr.violate(prop+"/termination", "files are written after Publish has returned", fmt.Sprintf("%d WriteFile calls started after Publish returned", canon.lateWrites))
	}
	checkConfinement(cr, prop, canon.events)
	checkCollisions(cr, prop, canon)
	checkClosure(cr, prop, canon.files, canon.kinds, cfg.Options, individualKeys(c.Docs[0]))

	// variants: schedule, jobs, map order, process history
	for vi, v := range cfg.Variants {
		var run *pubRun
		if v.SameOptions || v.RealWriter || v.Republish {
			doc, err := decode(c.Docs[0])
			if err != nil {
				continue
			}
			var lib *html.PublishShowOptions
			if v.Republish {
				lib = cfg.Options.lib()
				if cfg.Options.MaxLivingAgeZero {
					doc.MaxLivingAge = 0
				}
				sim := v.Sim
				labels := map[unsafe.Pointer]int{}
				labelDoc(labels, doc, 0)
				sim.Labels = labels
				sim.Today = parseToday(c.Today)
				first, disk := &Disk{returnedAt: -1}, &Disk{returnedAt: -1}
				var perr error
				res, _ := runSim(t, cr, prop, sim, func() {
					pa := html.NewPublisher(doc, lib)
					pa.Publish(first, v.Jobs)
					perr = pa.Publish(disk, v.Jobs)
					disk.markReturned()
				})
				run = &pubRun{res: res, err: perr, events: disk.events, files: map[string][]byte{}, kinds: map[string]string{}}
				for _, e := range disk.events {
					if e.Err == "" {
						if _, ok := run.files[e.Name]; ok {
							run.dups = append(run.dups, [2]string{e.Name, "again"})
						}
						run.files[e.Name] = e.Data
						run.kinds[e.Name] = e.Kind
					}
				}
				cr.count("history.same_publisher_twice", 1)
			} else if v.SameOptions && v.Interleaved {
				lib = cfg.Options.lib()
				priorText := "0 HEAD\n0 @X1@ INDI\n1 NAME Other /Otherson/\n1 DEAT\n2 DATE 1 Jan 1800\n0 TRLR\n"
				if v.Prior >= 0 && v.Prior < len(c.Docs) {
					priorText = c.Docs[v.Prior]
				}
				other, err := decode(priorText)
				if err != nil {
					continue
				}
				if cfg.Options.MaxLivingAgeZero {
					doc.MaxLivingAge = 0
				}
				sim := v.Sim
				labels := map[unsafe.Pointer]int{}
				labelDoc(labels, doc, 0)
				sim.Labels = labels
				sim.Today = parseToday(c.Today)
				disk := &Disk{returnedAt: -1}
				var perr error
				res, _ := runSim(t, cr, prop, sim, func() {
					pa := html.NewPublisher(doc, lib)
					html.NewPublisher(other, lib) // created in between, never published
					perr = pa.Publish(disk, v.Jobs)
					disk.markReturned()
				})
				run = &pubRun{res: res, err: perr, events: disk.events, files: map[string][]byte{}, kinds: map[string]string{}}
				for _, e := range disk.events {
					if e.Err == "" {
						if _, ok := run.files[e.Name]; ok {
							run.dups = append(run.dups, [2]string{e.Name, "again"})
						}
						run.files[e.Name] = e.Data
						run.kinds[e.Name] = e.Kind
					}
				}
				cr.count("history.interleaved_publishers", 1)
			} else if v.SameOptions {
				lib = cfg.Options.lib()
				priorText := "0 HEAD\n0 TRLR\n"
				if v.Prior >= 0 && v.Prior < len(c.Docs) {
					priorText = c.Docs[v.Prior]
				}
				if pd, err := decode(priorText); err == nil {
					sub := &CaseResult{Prop: prop, Probes: map[string]int64{}, Counters: map[string]int64{}}
					runPublishWith(t, sub, prop, pd, cfg.Options, lib, false, 1, simrt.Config{Mode: "default", MapOrder: "identity"}, c.Today, nil)
					cr.Runs++
					cr.count("history.prior_publish", 1)
					cr.count("history.same_options_object", 1)
				}
			}
			if run == nil {
				o := cfg.Options
				o.staleDir = v.StaleDir
				if v.StaleDir {
					cr.count("history.published_into_before", 1)
				}
				if v.FullDisk && v.RealWriter && len(canon.files) > 0 {
					if _, err := os.Stat("/dev/full"); err == nil {
						var names []string
						for n := range canon.files {
							names = append(names, n)
						}
						sort.Strings(names)
						o.fullName = names[int(v.Sim.Seed%uint64(len(names)))]
					}
				}
				if o.fullName != "" {
					o.staleDir = false
					full, _ := runPublishWith(t, cr, prop, doc, o, lib, true, v.Jobs, v.Sim, c.Today, nil)
					cr.count("disk.full_inside_the_directory_writer", 1)
					cr.NonTrivial = true
					switch {
					case full.res.Outcome == "crash":
						cr.violate(prop+"/fault", "publish panics when a write fails inside the directory writer (at "+topLibraryFrame(full.res.Crash.Stack)+")",
							fmt.Sprintf("%s is a link to /dev/full (jobs=%d)\n%s\n%s", o.fullName, v.Jobs, full.res.Crash.Value, full.res.Crash.Stack))
					case full.res.Outcome != "completed":
						cr.violate(prop+"/fault", "publish does not return after a write failed inside the directory writer: "+full.res.Outcome, o.fullName)
					case full.err == nil:
						cr.violate(prop+"/fault", "a write that failed inside the directory writer (disk full) is reported as success",
							fmt.Sprintf("%s is a link to /dev/full (jobs=%d) and Publish returned nil", o.fullName, v.Jobs))
					}
					continue
				}
				run, _ = runPublishWith(t, cr, prop, doc, o, lib, v.RealWriter, v.Jobs, v.Sim, c.Today, nil)
			}
			if v.RealWriter {
				cr.count("disk.real_directory_writer", 1)
			}
		} else if v.Prior == 0 && v.SameObject && v.PriorOptions != nil {
			doc, err := decode(c.Docs[0])
			if err != nil {
				continue
			}
			sub := &CaseResult{Prop: prop, Probes: map[string]int64{}, Counters: map[string]int64{}}
			runPublishDoc(t, sub, prop, doc, *v.PriorOptions, 1, simrt.Config{Mode: "default", MapOrder: "identity"}, c.Today, nil)
			cr.Runs++
			cr.count("history.prior_publish", 1)
			cr.count("history.same_document_object", 1)
			run, _ = runPublishDoc(t, cr, prop, doc, cfg.Options, v.Jobs, v.Sim, c.Today, nil)
		} else {
			if v.Prior >= 0 && v.Prior < len(c.Docs) && v.PriorOptions != nil {
				sub := &CaseResult{Prop: prop, Probes: map[string]int64{}, Counters: map[string]int64{}}
				runPublish(t, sub, prop, c.Docs[v.Prior], *v.PriorOptions, 1, simrt.Config{Mode: "default", MapOrder: "identity"}, c.Today, nil)
				cr.Runs++
				cr.count("history.prior_publish", 1)
			}
			run, _ = runPublish(t, cr, prop, c.Docs[0], cfg.Options, v.Jobs, v.Sim, c.Today, nil)
		}
		if v.Jobs > 1 {
			cr.Probes["jobs>1"]++
		}
		if outcomeViolation(cr, prop, &run.res, fmt.Sprintf("publish (variant jobs=%d)", v.Jobs)) {
			continue
		}
		// a name that two pages share holds whichever was written last: that
		// is the collision oracle's subject, not a second finding
		if v.RealWriter && run.err != nil {
			cr.observe("publishing through the real DirectoryFileWriter returned an error: " + clip(run.err.Error(), 80))
			continue
		}
		if d := diffFiles(canon.files, run.files, canon.collided(), run.collided()); d != "" {
			kind := "schedule/jobs/map-order"
			if v.Prior >= 0 || v.SameOptions || v.Republish {
				kind = "earlier publish in the same process"
			}
			if v.RealWriter {
				kind = "the library's own directory writer"
			}
			cr.violate(prop+"/determinism", diffClass(canon.files, run.files)+" under "+kind,
				fmt.Sprintf("variant %d (jobs=%d mode=%s map=%s prior=%d) vs canonical run: %s", vi, v.Jobs, v.Sim.Mode, v.Sim.MapOrder, v.Prior, d))
		}
		cr.Probes["variants_compared"]++
	}

	// process history: the same canonical publish in a fresh process
	if cfg.FreshProcess {
		fresh, err := freshProcessDigest(c)
		cr.count("history.fresh_process", 1)
		if err != nil {
			cr.observe("fresh process run failed: " + err.Error())
		} else {
			mine := fileDigest(canon.files)
			for n := range canon.collided() {
				delete(mine, n)
				delete(fresh, n)
			}
			if fmt.Sprint(mine) != fmt.Sprint(fresh) {
				cr.violate(prop+"/determinism", "differs from a fresh process",
					fmt.Sprintf("digests in this process (which published another document before): %v\nin a fresh process: %v", mine, fresh))
			}
			cr.Probes["fresh_process_compared"]++
		}
	}

	// writer faults
	for _, f := range cfg.Faults {
		ks := []int{f.K}
		if f.K == 0 {
			ks = ks[:0]
			for k := 1; k <= len(canon.events); k++ {
				ks = append(ks, k)
			}
		}
		for _, k := range ks {
			jobs := f.Jobs
			if jobs < 1 {
				jobs = 1
			}
			sim := c.Sim
			if jobs > 1 {
				sim = simrt.Config{Mode: "random", PreemptProb: 0.2, Seed: c.Sim.Seed + uint64(k), MapOrder: "identity"}
			}
			df := DiskFault{Kind: "fail_call", K: k, Sticky: f.Sticky}
			if f.Kind == "fail_body" {
				// after 0, 1, a few or many bytes of the page
				df = DiskFault{Kind: "fail_body", K: k, B: []int{0, 1, f.B % 200, f.B}[k%4]}
			}
			run, _ := runPublish(t, cr, prop, c.Docs[0], cfg.Options, jobs, sim, c.Today, []DiskFault{df})
			if run.fired == 0 {
				continue
			}
			cr.NonTrivial = true
			cr.Distinct = append(cr.Distinct, fmt.Sprintf("fault:%s:%s:k=%d:b=%d:j=%d:s=%v", hashCaseDocs(c), df.Kind, k, df.B, jobs, f.Sticky))
			cr.count("disk."+df.Kind, 1)
			if f.Sticky {
				cr.count("disk.sticky", 1)
			}
			if jobs > 1 {
				cr.Probes["writer_failed_with_jobs>1"]++
			}
			if run.lateWrites > 0 {
				cr.violate(prop+"/termination", "files are written after Publish has returned",
					fmt.Sprintf("WriteFile call %d failed (jobs=%d sticky=%v): %d WriteFile calls started after Publish had returned", k, jobs, f.Sticky, run.lateWrites))
			}
			if !f.Sticky && k%3 == 1 && df.Kind == "fail_call" {
				// the same Publisher once more after the failed attempt, the
				// disk working again: the site, or an error
				doc, derr := decode(c.Docs[0])
				if derr == nil {
					labels := map[unsafe.Pointer]int{}
					labelDoc(labels, doc, 0)
					rs := sim
					rs.Labels = labels
					rs.Today = parseToday(c.Today)
					if cfg.Options.MaxLivingAgeZero {
						doc.MaxLivingAge = 0
					}
					bad, good := &Disk{faults: []DiskFault{{Kind: "fail_call", K: k}}, returnedAt: -1}, &Disk{returnedAt: -1}
					var err1, err2 error
					res, _ := runSim(t, cr, prop, rs, func() {
						p := html.NewPublisher(doc, cfg.Options.lib())
						err1 = p.Publish(bad, jobs)
						err2 = p.Publish(good, jobs)
					})
					cr.Runs++
					cr.count("history.retry_on_same_publisher", 1)
					if res.Outcome == "completed" && err1 != nil && err2 == nil {
						files := map[string][]byte{}
						for _, e := range good.events {
							if e.Err == "" {
								files[e.Name] = e.Data
							}
						}
						if d := diffFiles(canon.files, files, canon.collided()); d != "" {
							cr.violate(prop+"/fault", "publishing again with the same Publisher after a writer failure reports success but does not write the site",
								fmt.Sprintf("WriteFile call %d failed in the first attempt (jobs=%d); the second attempt returned nil: %s", k, jobs, clip(d, 400)))
						}
					}
				}
			}
			switch run.res.Outcome {
			case "completed":
				if run.err == nil {
					cr.violate(prop+"/fault", "writer failure reported as success",
						fmt.Sprintf("WriteFile call %d of %d failed (jobs=%d sticky=%v) and Publish returned nil", k, len(canon.events), jobs, f.Sticky))
				}
				if len(run.res.Leaked) > 0 {
					cr.Probes["producer_left_blocked_after_failure"]++
				}
			case "crash":
				// the simulated disk only ever returns errors, so a panic here
				// is Publish's own: a crash is not "reports an error"
				cr.violate(prop+"/fault", "publish panics after a writer failure: "+crashSignature(run.res.Crash),
					fmt.Sprintf("WriteFile call %d failed (jobs=%d sticky=%v)\n%s\n%s", k, jobs, f.Sticky, run.res.Crash.Value, run.res.Crash.Stack))
			default:
				var where []string
				for _, l := range run.res.Leaked {
					where = append(where, l.Name+"@"+l.Site+"("+l.State+")")
				}
				cr.violate(prop+"/fault", "publish does not return after a writer failure: "+run.res.Outcome,
					fmt.Sprintf("WriteFile call %d failed (jobs=%d sticky=%v): %s", k, jobs, f.Sticky, strings.Join(where, " ")))
			}
		}
	}
	return cr
}

func hashCaseDocs(c *Case) string {
	h := sha256.New()
	for _, d := range c.Docs[:1] {
		h.Write([]byte(d))
	}
	b, _ := json.Marshal(c.Publish.Options)
	h.Write(b)
	return hex.EncodeToString(h.Sum(nil)[:6])
}

// freshProcessDigest re-executes this test binary for the canonical publish of
// the case: a process that has never published anything.
func freshProcessDigest(c *Case) (map[string]string, error) {
	f, err := os.CreateTemp("", "fresh-*.json")
	if err != nil {
		return nil, err
	}
	defer os.Remove(f.Name())
	b, _ := json.Marshal(c)
	f.Write(b)
	f.Close()
	outp := f.Name() + ".out"
	defer os.Remove(outp)
	cmd := exec.Command(os.Args[0], "-test.run", "^TestFreshPublish$", "-test.timeout", "0")
	cmd.Env = append(os.Environ(), "SIM_FRESH_CASE="+f.Name(), "SIM_FRESH_OUT="+outp, "SIM_MODE=")
	if out, err := cmd.CombinedOutput(); err != nil {
		if _, e2 := os.Stat(outp); e2 != nil {
			return nil, fmt.Errorf("%v: %s", err, lastBytes(out, 400))
		}
	}
	data, err := os.ReadFile(outp)
	if err != nil {
		return nil, err
	}
	var d map[string]string
	if err := json.Unmarshal(data, &d); err != nil {
		return nil, err
	}
	return d, nil
}

func lastBytes(b []byte, n int) string {
	if len(b) > n {
		b = b[len(b)-n:]
	}
	return string(b)
}

// RunFreshPublish is the child side of freshProcessDigest.
func RunFreshPublish(t *testing.T) {
	b, err := os.ReadFile(os.Getenv("SIM_FRESH_CASE"))
	if err != nil {
		t.Fatal(err)
	}
	c := &Case{}
	if err := json.Unmarshal(b, c); err != nil {
		t.Fatal(err)
	}
	cr := &CaseResult{Prop: c.Prop, Probes: map[string]int64{}, Counters: map[string]int64{}}
	run, ok := runPublish(t, cr, c.Prop, c.Docs[0], c.Publish.Options, c.Publish.Jobs, c.Sim, c.Today, nil)
	if !ok || run.res.Outcome != "completed" {
		t.Fatalf("fresh publish did not complete")
	}
	out, _ := json.Marshal(fileDigest(run.files))
	os.WriteFile(os.Getenv("SIM_FRESH_OUT"), out, 0o644)
}
