#!/usr/bin/env python3
"""mkcmdsim.py <scratch copy of the repository>

Makes the gedcom command (cmd/gedcom, package main) callable from the harness:
copies its sources into <copy>/cmdsim as package cmdsim, renames main() to
Main(), and replaces the standard log package by cmdsim/simlog, whose Fatal*
functions panic with simlog.Exit instead of ending the process, and os/signal by
cmdsim/simsignal (no signal is ever delivered; registering a real handler from
inside a synctest bubble is a runtime fatal error). Nothing else is changed; the instrumenter then treats cmdsim like every other package. Only
ever run on a scratch copy.
"""
import os, re, sys

SIMLOG = '''// Package simlog stands in for the standard log package in the simulated
// command: Fatal* panics with Exit instead of ending the process.
package simlog

import (
	"fmt"
	"io"
	"strings"
)

// Exit is the panic value that stands for "the process exits with this code".
type Exit struct {
	Code int
	Msg  string
}

func (e Exit) Error() string { return fmt.Sprintf("simlog.Exit code=%d: %s", e.Code, e.Msg) }

// Out receives what the command logs (stderr of the real process).
var Out io.Writer = io.Discard

func Fatal(v ...interface{})                 { panic(Exit{1, fmt.Sprint(v...)}) }
func Fatalln(v ...interface{})               { panic(Exit{1, strings.TrimSuffix(fmt.Sprintln(v...), "\\n")}) }
func Fatalf(format string, v ...interface{}) { panic(Exit{1, fmt.Sprintf(format, v...)}) }
func Panic(v ...interface{})                 { panic(fmt.Sprint(v...)) }
func Panicln(v ...interface{})               { panic(fmt.Sprintln(v...)) }
func Panicf(format string, v ...interface{}) { panic(fmt.Sprintf(format, v...)) }
func Print(v ...interface{})                 { fmt.Fprint(Out, v...) }
func Println(v ...interface{})               { fmt.Fprintln(Out, v...) }
func Printf(format string, v ...interface{}) { fmt.Fprintf(Out, format, v...) }
'''

SIMSIGNAL = '''// Package simsignal stands in for os/signal in the simulated command: the
// operating system delivers no signal, the harness could (Registered).
package simsignal

import "os"

// Registered holds the channels of the current run (reset by the harness).
var Registered []chan<- os.Signal

func Notify(c chan<- os.Signal, sig ...os.Signal) { Registered = append(Registered, c) }
func Stop(c chan<- os.Signal)                     {}
'''

SHIM = '''package cmdsim

import "MODPATH/cmdsim/simlog"

// simExit stands in for os.Exit.
func simExit(code int) { panic(simlog.Exit{Code: code}) }
'''


def main():
    repo = sys.argv[1]
    src = os.path.join(repo, "cmd", "gedcom")
    dst = os.path.join(repo, "cmdsim")
    mod = None
    for line in open(os.path.join(repo, "go.mod")):
        f = line.split()
        if len(f) == 2 and f[0] == "module":
            mod = f[1]
    if mod is None:
        sys.exit("mkcmdsim: no module line in go.mod")
    if os.path.exists(dst):
        sys.exit("mkcmdsim: %s exists already" % dst)
    os.makedirs(os.path.join(dst, "simlog"))
    os.makedirs(os.path.join(dst, "simsignal"))
    n = 0
    for name in sorted(os.listdir(src)):
        if not name.endswith(".go") or name.endswith("_test.go"):
            continue
        s = open(os.path.join(src, name)).read()
        s, k = re.subn(r'(?m)^package main$', 'package cmdsim', s, count=1)
        if k != 1:
            sys.exit("mkcmdsim: %s is not package main" % name)
        s = re.sub(r'(?m)^func main\(\)', 'func Main()', s)
        # same line count: the replacement stays on the import's line
        s = re.sub(r'(?m)^(\s*)"log"$', r'\1log "%s/cmdsim/simlog"' % mod, s)
        s = re.sub(r'(?m)^import "log"$', 'import log "%s/cmdsim/simlog"' % mod, s)
        s = re.sub(r'(?m)^(\s*)"os/signal"$', r'\1signal "%s/cmdsim/simsignal"' % mod, s)
        s = s.replace("os.Exit(", "simExit(")
        open(os.path.join(dst, name), "w").write(s)
        n += 1
    if n == 0:
        sys.exit("mkcmdsim: no sources in cmd/gedcom")
    open(os.path.join(dst, "simlog", "simlog.go"), "w").write(SIMLOG)
    open(os.path.join(dst, "simsignal", "simsignal.go"), "w").write(SIMSIGNAL)
    open(os.path.join(dst, "zz_simexit.go"), "w").write(SHIM.replace("MODPATH", mod))


if __name__ == "__main__":
    main()
