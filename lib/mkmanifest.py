#!/usr/bin/env python3
"""Writes /verif/MANIFEST.json from lib/props.py (claimed checks) and the
not-applicable table below, so the two never drift apart."""
import json, os, sys
sys.path.insert(0, os.path.dirname(os.path.abspath(__file__)))
from props import PROPS

NA = {
    "C04": "pure function of a string (date grammar): no schedule, clock, fault or history for a simulator to vary",
    "C05": "pure function of a date (calendar bounds, Years scale): nothing to schedule or fault",
    "C06": "pure function of two date ranges: nothing to schedule or fault",
    "C07": "sequential computation on in-memory trees (deep equality / copy); the later-edit aliasing effects are history effects exercised under C13",
    "C08": "sequential pure function of two trees (node diff): no seam",
    "C09": "sequential pure function of trees (node merge): no seam",
    "C10": "deterministic function of the two documents and of the matching returned by Compare; the only scheduled part is that matching, decided on every schedule under C11",
    "C12": "pure numeric functions of their operands and options",
    "C15": "single-goroutine interpreter over an in-memory document; non-termination by self-reference is a property of the program text, not of a schedule",
    "C16": "single-goroutine interpreter, pure in (query, document)",
    "C18": "escaping is a reachability question over the component tree, identical under every schedule, clock and fault",
    "C20": "pure function of (document, today): the clock enters as one scalar read; the side effect of Warnings() on the document is covered under C13",
}
PENDING = {p: "simulation target per DESIGN.md; its check is still under construction in this round (not claimed until the check exists)"
           for p in ()}

def main():
    root = os.path.dirname(os.path.dirname(os.path.abspath(__file__)))
    known = json.load(open(os.path.join(root, "known_findings.json")))
    checks = []
    for pid, cfg in PROPS.items():
        checks.append({
            "property_id": pid,
            "quick_cmd": "./check %s --tier quick" % pid,
            "thorough_cmd": "./check %s --tier thorough" % pid,
            "evidence_file": "/verif/evidence/%s.json" % pid,
            "replay_cmd_template": "./check %s --replay {path}" % pid,
            "engine": cfg["engine"],
            "level_claimed": {"category": cfg["level"], "text": cfg["level_text"], "design_ref": cfg["design_ref"]},
            "level_note": cfg["level_note"],
            "technique": cfg["technique"],
        })
    na = []
    for pid in sorted(set(NA) | set(PENDING)):
        if pid in PROPS:
            continue
        na.append({"property_id": pid, "reason": NA.get(pid) or PENDING[pid]})
    engines = {}
    for pid, cfg in PROPS.items():
        engines.setdefault(cfg["engine"], []).append(pid)
    m = {
        "version": 1,
        "setup_cmd": "./setup.sh",
        "hooks": {
            "guard": "none: no hook is committed to /repo; seams are inserted into a scratch copy at build time by /verif/simgen",
            "enable": "./check copies /repo's working tree to /var/tmp/verif-scratch, runs bin/simgen on the copy (packages ., util, html, html/core, q) and builds the harness against it with go1.26.8 -race",
            "baseline_off_cmd": "cd /repo && go test -vet=off -count=1 ./...",
            "source_commits": [],
            "add_only": True,
        },
        "engines": [{"name": e, "path": "harness/engine_%s.go" % e, "serves_properties": ps,
                     "kind_free_text": "deterministic simulation: seeded serialising scheduler (simrt) over testing/synctest, instrumented copy of the repository (simgen), simulated disk/streams, Go race detector"}
                    for e, ps in sorted(engines.items())],
        "checks": checks,
        "not_applicable": na,
        "notes": ("Technique: deterministic simulation with fault injection. Repairs of genuine defects found by the checks are 'fix:' commits in /repo, "
                  "listed in known_findings.json (%d fixed, %d known). See DESIGN.md." % (len(known.get("fixed", [])), len(known.get("known", [])))),
    }
    json.dump(m, open(os.path.join(root, "MANIFEST.json"), "w"), indent=1)
    print("MANIFEST.json: %d checks, %d not applicable" % (len(checks), len(na)))

if __name__ == "__main__":
    main()
