"""Per-property configuration of the driver: tiers, evidence texts, shrink hints."""

COMPONENTS_COMMON = {
    "real": ["gedcom, util, html, html/core, q packages of /repo's working tree (instrumented copy; upstream unit tests pass on it)",
             "Go channels, WaitGroup, sync.Mutex, sync.Map, bufio", "Go race detector (fed only the program's own synchronisation)"],
    "simulated": ["goroutine scheduling (seeded serialising scheduler)", "select choice", "map and sync.Map iteration order",
                  "wall clock and timers (synctest fake clock)"],
    "not_run": ["cmd/gedcom except where a property lists it under stub (C11, C14); its tune command and progress bars never"],
}


def comp(stub):
    d = dict(COMPONENTS_COMMON)
    d["stub"] = stub
    return d


def _set(path, value):
    def f(c):
        o = c
        for k in path[:-1]:
            o = o.get(k)
            if o is None:
                return False
        if o.get(path[-1]) == value:
            return False
        o[path[-1]] = value
    return f


PROPS = {
    "C11": {
        "engine": "compare",
        "level": "exploration",
        "design_ref": "DESIGN.md §5 C11",
        "technique": "deterministic simulation: seeded goroutine scheduler + race detector over the real Compare/DiffPage pipelines, invariants on the result and against a sequential reference run",
        "level_text": ("Seeded exploration of schedules x inputs x configurations of the real IndividualNodes.Compare pipeline (and html.DiffPage) under a serialising "
                       "scheduler that decides every goroutine switch, select choice, sync.Map order and clock advance; the Go race detector sees only the program's own "
                       "synchronisation, so a race is reported on a replayable schedule. Oracles: exactly-once partition, justification of every pair, equality with the "
                       "sequential run when no scores tie, no race report, bounded liveness. Sampling, not proof."),
        "level_note": ("Trusts: the instrumenter (validated by running the upstream unit tests on the instrumented copy), the Go race detector, the library's own "
                       "similarity functions for recomputing scores on cold copies. GOMAXPROCS is irrelevant by construction (one goroutine runs at a time). "
                       "The gedcom diff command runs as real code (package main copied to a callable package, log.Fatal and os/signal stubbed); its progress bars are never switched on."),
        "rule": ("cases = seeded family-graph document pairs x Jobs x thresholds x notifier x scheduler configuration "
                 "(default / random preemption / PCT, select order, sync.Map order, clock advance); one evaluation = one "
                 "simulated execution of IndividualNodes.Compare (plus html.DiffPage in a quarter of the cases) inside the "
                 "serialising scheduler. distinct_nontrivial = number of distinct contended-schedule hashes (sequence of "
                 "(chosen goroutine, site) at decisions with >= 2 runnable goroutines) among runs in which at least one "
                 "decision deviated from the default schedule."),
        "tiers": {
            "quick": {"cases": 2400, "wall_s": 75, "seed": 1, "minimise_s": 40},
            "thorough": {"cases": 60000, "wall_s": 1500, "seed": 1001, "minimise_s": 120},
        },
        "probes_wanted": ["via=cli", "cli_page_compared_with_library", "same_objects_on_both_sides", "edited_after_first_compare", "list_is_part_of_document", "duplicate_or_no_pointer", "jobs>1", "mutex_contended", "unique_id_tie", "score_tie_skipped", "o3_compared",
                          "matched_by_unique_id", "matched_by_pointer", "matched_by_similarity"],
        "shrink_lists": [["compare", "left_drop"], ["compare", "right_drop"]],
        "shrink_scalars": [_set(["compare", "diff_page"], False), _set(["compare", "notifier"], ""),
                           _set(["compare", "jobs"], 2), _set(["compare", "min_ws"], -1), _set(["compare", "prefer_ptr"], -1)],
        "components": comp(['cmd/gedcom (the command itself, in a third of the C14 cases and an eighth of the C11 cases): real code, copied into the scratch tree as package cmdsim and instrumented like the library; stubs: the log package (Fatal* panics with an exit value instead of ending the process), os/signal (no signal is delivered), os.Args / flag.CommandLine / os.Stdout set per run by the harness; files are real files in a temporary directory; the progress bar (-progress) is never switched on']),
        "assumptions": [
            "schedules, inputs and configurations are sampled by seed, not enumerated",
            "interleavings are explored at visible operations (channel, WaitGroup, mutex, sync.Map, goroutine start); conflicts between plain memory accesses are found by the race detector's happens-before analysis under the serialised schedule",
            "similarity scores used by the justification oracle are recomputed with the library's own SurroundingSimilarity on cold private copies",
            "through the command only race, crash, hang and a complete page are checked; the matching oracles O1-O3 need the result object and run on the library call",
        ],
    },
    "C19": {
        "engine": "publish",
        "level": "fault_enumeration",
        "design_ref": "DESIGN.md §5 C19",
        "technique": "deterministic simulation: Publisher.Publish on a simulated disk under a seeded scheduler; file history compared across schedules, jobs, map orders and process histories; writer failure injected at every k-th file",
        "level_text": ("For every generated document the file-writer fault position is enumerated completely (WriteFile call k fails for every k of the fault-free run, "
                       "transient and sticky, with 1 and with several workers; in a quarter of the cases also: the device fills up after 0, 1, a few or many bytes of the k-th page, for every k) and Publish must stop and return an error; documents, options, schedules, map orders and "
                       "process histories are sampled by seed. The recorded (name, bytes) history of the simulated disk is checked for confinement, collisions, link closure "
                       "and byte-identity across schedules x jobs x map order x earlier publishes x a fresh process, and the race detector runs under the serialised schedule."),
        "level_note": ("Trusts: instrumenter (upstream unit tests pass on the instrumented copy), Go race detector, the simulated disk (stub for core.FileWriter; the real "
                       "DirectoryFileWriter is not run). A clock jump during one publish is deliberately not injected (the statement promises a function of document and options). "
                       "Known findings (not repaired, see known_findings.json) are matched by cause-specific signatures."),
        "rule": ("cases = seeded hostile family-graph documents (hostile pointers, colliding names and places, odd surnames) x page-group options x visibility; per case: one "
                 "canonical publish, 2-3 variants (jobs in {1,2,8,16} x scheduler configuration x map order x publish of another/the same document before), optionally the same "
                 "publish in a fresh process, and one publish per enumerated writer-fault position. one evaluation = one simulated Publish. distinct_nontrivial = distinct "
                 "contended-schedule hashes of variant runs that deviated from the default schedule plus distinct (document, options, k, jobs, sticky) fault injections that fired."),
        "tiers": {
            "quick": {"cases": 320, "wall_s": 90, "seed": 1, "minimise_s": 40, "case_budget_s": 90, "chunk": 60},
            "thorough": {"cases": 12000, "wall_s": 1800, "seed": 1001, "minimise_s": 120, "case_budget_s": 600, "chunk": 60},
        },
        "probes_wanted": ["jobs>1", "variants_compared", "fresh_process_compared", "writer_failed_with_jobs>1", "producer_left_blocked_after_failure", "files"],
        "shrink_lists": [["publish", "variants"], ["publish", "faults"]],
        "shrink_scalars": [_set(["publish", "fresh_process"], False), _set(["publish", "options", "statistics"], False), _set(["publish", "options", "sources"], False),
                           _set(["publish", "options", "surnames"], False), _set(["publish", "options", "families"], False), _set(["publish", "options", "places"], False)],
        "components": comp(["file system: simulated disk implementing core.FileWriter (records name, bytes, error per call; fault plan)"]),
        "assumptions": [
            "documents, options, schedules, map orders and histories are sampled by seed; only the writer-fault position k is enumerated completely per case",
            "the clock is constant during one publish and equal for all runs that are compared",
            "a panic on a failing writer is recorded as an observation (it stops and is loud); hangs and silent success are violations",
            "the real DirectoryFileWriter and the real file system are not run",
        ],
    },
    "C17": {
        "engine": "publish",
        "level": "exploration",
        "design_ref": "DESIGN.md §5 C17",
        "technique": "deterministic simulation: publish to a simulated disk under seeded schedules, jobs, simulated clock (age rule) and process history; marker search and two-run non-interference over the recorded file history",
        "level_text": ("Seeded exploration of documents in which every private string is a unique marker token, with living people in every role, x visibility {hide, placeholder} x "
                       "page groups x jobs x schedules x simulated 'today' x earlier publishes in the same process (half of which end early on a disk that fills up in the middle of a page). Oracles over the simulated disk's file history: no private name "
                       "token of a living individual in any file name or content; every non-living individual keeps a page; in hide mode publishing D and D' (living people's names, "
                       "dates, places replaced) gives byte-identical sites although the two runs use different schedules and jobs."),
        "level_note": ("Who is living is decided by the oracle from the generated facts (death event, or born 5-80 / >=120 years before the simulated today), never by calling IsLiving. "
                       "Nicknames and notes are not treated as names. Trusts the instrumenter, the simulated disk and the fake clock."),
        "rule": ("cases = seeded marker-token family graphs x options x jobs x scheduler configuration x today x history; one evaluation = one simulated Publish (1 to 3 per case). "
                 "distinct_nontrivial = distinct contended-schedule hashes among runs that deviated from the default schedule."),
        "tiers": {
            "quick": {"cases": 1600, "wall_s": 75, "seed": 1, "minimise_s": 40},
            "thorough": {"cases": 100000, "wall_s": 1500, "seed": 1001, "minimise_s": 120},
        },
        "probes_wanted": ["jobs>1", "has_living_people", "visibility=hide", "visibility=placeholder", "hide_noninterference_compared", "nonliving_checked", "blank_padded_input"],
        "shrink_lists": [["publish", "variants"]],
        "shrink_scalars": [_set(["publish", "jobs"], 1), _set(["publish", "options", "statistics"], False), _set(["publish", "options", "sources"], False),
                           _set(["publish", "options", "families"], False), _set(["publish", "options", "places"], False), _set(["publish", "options", "surnames"], False)],
        "components": comp(["file system: simulated disk implementing core.FileWriter"]),
        "assumptions": [
            "inputs, options, schedules, clock dates and histories are sampled by seed",
            "the living rule is applied by the oracle with a margin (born 5-80 years before today = living, >= 120 years = not living), so the year-fraction arithmetic cannot matter",
            "tokens deliberately shared with a non-living person are not private",
        ],
    },
    "C14": {
        "engine": "commands",
        "level": "exploration",
        "design_ref": "DESIGN.md §5 C14",
        "technique": "deterministic simulation: the library work behind warnings / publish / diff / query on structurally corrupted (storage-fault) files, inside the seeded scheduler that captures panics in any goroutine and hangs",
        "level_text": ("Seeded exploration: random family graphs perturbed by 0-4 of the structural faults the property lists, driven through the library pipelines of each command "
                       "(warnings, publish in every visibility and page-group subset with jobs 1/2/8, diff with every -show/-sort and jobs 1/4, the documented example queries with "
                       "every formatter) inside the scheduler. Outcome must be completed or error: a panic in any goroutine, a runtime fatal error and a hang are violations."),
        "level_note": ("A third of the cases run the code of the command itself (flag parsing, file reading, its own goroutines and the order in which it waits for them), with log.Fatal "
                       "turned into an observable exit value; the rest drive the library calls the command makes. Signal delivery and the progress bars are not simulated. "
                       "Worker panics are visible because the instrumented go statement wraps every goroutine; fatal errors and CPU loops are caught by the driver's worker watchdog."),
        "rule": ("cases = seeded family graphs x structural faults x command x options x scheduler configuration; one evaluation = one simulated command. "
                 "distinct_nontrivial = distinct case hashes among cases with at least one structural fault applied."),
        "tiers": {
            "quick": {"cases": 2400, "wall_s": 75, "seed": 1, "minimise_s": 40},
            "thorough": {"cases": 150000, "wall_s": 1500, "seed": 1001, "minimise_s": 120},
        },
        "probes_wanted": ["command=warnings", "command=publish", "command=diff", "command=query", "visibility=hide", "visibility=show", "visibility=placeholder", "via=cli", "query=merge"],
        "shrink_scalars": [_set(["publish", "jobs"], 1), _set(["compare", "jobs"], 1)],
        "components": comp(["file system: simulated disk implementing core.FileWriter (library-call cases; with the 255-byte file-name limit of real file systems); real temporary directory (command cases)", "q (query engine): real, instrumented for map order only (no concurrency inside)", 'cmd/gedcom (the command itself, in a third of the C14 cases and an eighth of the C11 cases): real code, copied into the scratch tree as package cmdsim and instrumented like the library; stubs: the log package (Fatal* panics with an exit value instead of ending the process), os/signal (no signal is delivered), os.Args / flag.CommandLine / os.Stdout set per run by the harness; files are real files in a temporary directory; the progress bar (-progress) is never switched on']),
        "assumptions": [
            "inputs and configurations are sampled by seed",
            "exit status and stderr are observed as the exit value of the stubbed log.Fatal, not from a separate process",
        ],
    },
    "C01": {
        "engine": "stream",
        "level": "fault_enumeration",
        "design_ref": "DESIGN.md §5 C01",
        "technique": "deterministic simulation of the stream seam: Encoder -> simulated writer / bounded pipe with scheduled ends -> simulated reader -> Decoder; writer failure injected at every write call",
        "level_text": ("For every generated document (built through the public API over the legal alphabet) the writer-fault position is enumerated (every k for documents up to 48 writes; beyond that the first 16, the last 8 and every fifth): the k-th Write fails "
                       "(transient, sticky, short write) for every k, and Encode must either fail or have written text that still decodes to the identical document. Fault-free "
                       "round trips run under several reader delivery plans (whole, 1-byte, random chunks, zero-byte reads, data+EOF) and through a bounded pipe whose two ends are "
                       "goroutines scheduled by the seeded scheduler, alone or next to up to two more encoder|pipe|decoder chains with documents of their own; for texts up to 600 bytes the reader fails "
                       "once (or for good) at every offset of the encoder's output and Decode must return an error; streams that were refused are decoded before the round trip in a quarter of the cases. Documents are sampled by seed."),
        "level_note": "The forest generator is a sampled workload (no exhaustive enumeration of small forests: that would be another technique). Trusts the simulated reader/writer/pipe stubs.",
        "rule": ("cases = seeded node forests (all specialised tags, custom and numeric tags, values that look like pointers/levels/tags, duplicate siblings, nested pointers, "
                 "family-role nodes, depth up to 99, BOM on/off); one evaluation = one decode under a delivery plan, one encode under a write fault, or one simulated pipe run. "
                 "distinct_nontrivial = distinct (text hash, delivery plan with short reads) pairs plus distinct (text hash, write fault) pairs that fired."),
        "tiers": {
            "quick": {"cases": 1000, "wall_s": 60, "seed": 1, "minimise_s": 30},
            "thorough": {"cases": 200000, "wall_s": 1200, "seed": 1001, "minimise_s": 90},
        },
        "probes_wanted": ["nodes", "level>=10"],
        "shrink_lists": [["stream", "forest"], ["stream", "plans"]],
        "shrink_scalars": [_set(["stream", "pipe_cap"], 0), _set(["stream", "all_write_faults"], False), _set(["stream", "has_bom"], False)],
        "components": comp(["io.Writer given to the Encoder: simulated writer (fault plan) or simulated bounded pipe", "io.Reader given to the Decoder: simulated reader (delivery plan)"]),
        "assumptions": ["documents are sampled by seed; only the write-fault position is enumerated completely per document",
                        "legal alphabet as stated by the property: tags [A-Za-z0-9_]+, values without line breaks or surrounding white space, pointers without '@'"],
    },
    "C02": {
        "engine": "stream",
        "level": "exploration",
        "design_ref": "DESIGN.md §5 C02",
        "technique": "deterministic simulation of the reader seam: decoded tree compared with an independent reference line-grammar parser under every delivery plan; read error injected at every offset",
        "level_text": ("Seeded level-walk byte streams x {AllowMultiLine} x {AllowInvalidIndents}, decoded through a simulated reader under whole / 1-byte / random-chunk / "
                       "zero-byte-read / boundary-inside-BOM-or-CRLF plans and, for streams up to 400 bytes, with a read error at every offset. Oracles: tree == reference model "
                       "(an independent ~80-line parser of the documented grammar that sees the whole byte string), String() is a fix-point, the verdict is identical under every "
                       "delivery plan, a read error never yields a document."),
        "level_note": ("The input dimension is sampled, not enumerated. The generator stays inside the unambiguous part of the grammar (levels 0-14, continuation lines "
                       "never shaped like a line and never after a record line, role lines only after a FAM record)."),
        "rule": ("cases = seeded level-walk streams (descend, stay, dedent, new root; CR/LF/CRLF; blank lines; BOM; runs of spaces; xrefs; '@', digits, non-UTF-8 bytes) x 4 "
                 "option combinations; one evaluation = one decode. distinct_nontrivial = distinct (stream hash, delivery plan with short reads) pairs plus one per stream with "
                 "read errors enumerated."),
        "tiers": {
            "quick": {"cases": 3200, "wall_s": 60, "seed": 1, "minimise_s": 30},
            "thorough": {"cases": 150000, "wall_s": 1200, "seed": 1001, "minimise_s": 90},
        },
        "probes_wanted": ["accepted", "compared_with_reference", "multiline=true,invalid_indents=true", "multiline=false,invalid_indents=false"],
        "shrink_lists": [["stream", "segments"], ["stream", "plans"]],
        "shrink_scalars": [_set(["stream", "all_read_errors"], False)],
        "components": comp(["io.Reader given to the Decoder: simulated reader (delivery plan, error at offset)"]),
        "assumptions": ["streams are sampled by seed; read-error offsets are enumerated completely for streams up to 400 bytes",
                        "the reference model is an independent implementation of the grammar stated in the property"],
    },
    "C03": {
        "engine": "stream",
        "level": "fault_enumeration",
        "design_ref": "DESIGN.md §5 C03",
        "technique": "deterministic simulation of the reader seam with fault injection: truncation at every byte offset, read error at every offset, endless zero-byte reads, on adversarial byte streams",
        "level_text": ("For every generated stream up to 512 bytes truncation (EOF, with and without data in the same call) is injected at every byte offset, for streams up to 256 "
                       "bytes a read error at every offset, plus stalls (0, nil) at three offsets; streams (random bytes, structure-aware adversarial files, mutated GEDCOM, first "
                       "line above level 0, long lines) and options are sampled. Oracle: bounded number of reads, document xor error, only the documented indent panic and only "
                       "without AllowInvalidIndents, parse errors name a line, a read error is never swallowed."),
        "level_note": "Native fuzzing with a corpus is not part of this technique and is not used. Trusts the simulated reader.",
        "rule": ("cases = seeded adversarial byte streams x 4 option combinations; one evaluation = one decode under one fault or delivery plan. distinct_nontrivial = distinct "
                 "(stream, plan, options) triples with short reads plus one per (stream, options) whose truncation offsets were enumerated."),
        "tiers": {
            "quick": {"cases": 1000, "wall_s": 60, "seed": 1, "minimise_s": 30},
            "thorough": {"cases": 100000, "wall_s": 1200, "seed": 1001, "minimise_s": 90},
        },
        "probes_wanted": ["document", "parse_error", "injected_error_returned", "tolerated_indent_panic"],
        "shrink_lists": [["stream", "segments"], ["stream", "plans"]],
        "shrink_scalars": [_set(["stream", "all_read_errors"], False), _set(["stream", "all_truncations"], False)],
        "components": comp(["io.Reader given to the Decoder: simulated reader (truncation, error, stall, delivery plan)"]),
        "assumptions": ["streams are sampled by seed; truncation and read-error offsets are enumerated completely per short stream",
                        "a reader that panics is outside any contract and is not injected"],
    },
    "C13": {
        "engine": "history",
        "level": "exploration",
        "design_ref": "DESIGN.md §5 C13",
        "technique": "deterministic simulation of operation histories: seeded edit/read/read-only sequences on 1-2 documents sharing the process-global caches, concurrent reads inside the seeded scheduler, every view compared with a reference model (fresh decode of the current text) after every step",
        "level_text": ("Seeded exploration of histories over the public edit API (add/delete/replace child nodes, add individuals and families, set/clear husband and wife by node and "
                       "by pointer, add children, delete and replace root records) interleaved with plain reads that warm single caches and with read-only operations (Warnings, String, "
                       "Compare and DiffPage with 1-8 jobs and Publish with 1-8 jobs inside the seeded scheduler, SurroundingSimilarity, CompareNodes+Sort, DeepCopy/ShallowCopy/Filter into "
                       "another document, MergeNodes and MergeDocumentsAndIndividuals into a third document, queries). After every step every derived view of every session, normalised to tree positions, must equal the same view of a fresh decode "
                       "of the session's current text; read-only operations must leave text and views byte-identical; a second session shares the process-global caches. One case in six starts with the deletion of somebody's husband or wife "
                       "(or of every husband) followed at once by a read by several goroutines in which one goroutine at a time is stalled at the first visit of a lookup site (a slow thread)."),
        "level_note": ("Exhaustive enumeration of short histories is not done (seeded sampling only). In one case out of four the views are only compared at the end, so edits also "
                       "meet cold caches; a failing end state is then attributed by replaying prefixes. Histories that leave the decodable space or create duplicate pointers end "
                       "without a verdict (counted). The model decode itself resets the process-wide children-by-tag cache; the live views are re-read afterwards to re-warm it."),
        "rule": ("cases = seeded family-graph documents x operation histories (1-6 operations quick, up to 60 thorough; operation mix, document size and session count vary per "
                 "case); one evaluation = one applied operation followed by the oracle. distinct_nontrivial = distinct operation-kind sequences of length >= 2."),
        "tiers": {
            "quick": {"cases": 3200, "wall_s": 75, "seed": 1, "minimise_s": 40},
            "thorough": {"cases": 200000, "wall_s": 1500, "seed": 1001, "minimise_s": 120},
        },
        "probes_wanted": ["cache_warmed_by_read", "op:par", "op:ro.merge", "op:ro.mergenodes", "op:doc.addnode.dup", "op:node.delete", "op:node.setnodes", "op:doc.delete", "op:doc.setnodes", "op:ro.warnings", "op:ro.compare", "op:ro.publish",
                          "op:ro.comparenodes", "op:ro.deepcopy", "op:ro.filter", "op:ro.query", "op:ro.diffpage", "op:fam.sethusband.nil", "op:fam.addchild"],
        "shrink_lists": [["history", "ops"]],
        "components": comp(["file system for the publish operation: simulated disk", "q (query engine): real, instrumented for map order only"]),
        "assumptions": ["histories are sampled by seed, not enumerated",
                        "the reference model is a fresh decode of Document.String(); decoding itself is C01-C03's subject"],
    },
}
