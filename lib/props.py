"""Per-property configuration of the driver: tiers, evidence texts, shrink hints."""

COMPONENTS_COMMON = {
    "real": ["gedcom, util, html, html/core packages of /repo's working tree (instrumented copy; upstream unit tests pass on it)",
             "Go channels, WaitGroup, sync.Mutex, sync.Map, bufio", "Go race detector (fed only the program's own synchronisation)"],
    "simulated": ["goroutine scheduling (seeded serialising scheduler)", "select choice", "map and sync.Map iteration order",
                  "wall clock and timers (synctest fake clock)"],
    "not_run": ["cmd/gedcom (flag parsing, log.Fatal, signal handler, progress bars)"],
}


def comp(stub):
    d = dict(COMPONENTS_COMMON)
    d["stub"] = stub
    return d


def _set(path, value):
    def f(c):
        o = c
        for k in path[:-1]:
            o = o.get(k)
            if o is None:
                return False
        if o.get(path[-1]) == value:
            return False
        o[path[-1]] = value
    return f


PROPS = {
    "C11": {
        "engine": "compare",
        "level": "exploration",
        "design_ref": "DESIGN.md §5 C11",
        "technique": "deterministic simulation: seeded goroutine scheduler + race detector over the real Compare/DiffPage pipelines, invariants on the result and against a sequential reference run",
        "level_text": ("Seeded exploration of schedules x inputs x configurations of the real IndividualNodes.Compare pipeline (and html.DiffPage) under a serialising "
                       "scheduler that decides every goroutine switch, select choice, sync.Map order and clock advance; the Go race detector sees only the program's own "
                       "synchronisation, so a race is reported on a replayable schedule. Oracles: exactly-once partition, justification of every pair, equality with the "
                       "sequential run when no scores tie, no race report, bounded liveness. Sampling, not proof."),
        "level_note": ("Trusts: the instrumenter (validated by running the upstream unit tests on the instrumented copy), the Go race detector, the library's own "
                       "similarity functions for recomputing scores on cold copies. GOMAXPROCS is irrelevant by construction (one goroutine runs at a time). "
                       "cmd/gedcom/diff.go glue is not simulated."),
        "rule": ("cases = seeded family-graph document pairs x Jobs x thresholds x notifier x scheduler configuration "
                 "(default / random preemption / PCT, select order, sync.Map order, clock advance); one evaluation = one "
                 "simulated execution of IndividualNodes.Compare (plus html.DiffPage in a quarter of the cases) inside the "
                 "serialising scheduler. distinct_nontrivial = number of distinct contended-schedule hashes (sequence of "
                 "(chosen goroutine, site) at decisions with >= 2 runnable goroutines) among runs in which at least one "
                 "decision deviated from the default schedule."),
        "tiers": {
            "quick": {"cases": 480, "wall_s": 75, "seed": 1, "minimise_s": 40},
            "thorough": {"cases": 60000, "wall_s": 1500, "seed": 1001, "minimise_s": 120},
        },
        "probes_wanted": ["jobs>1", "mutex_contended", "unique_id_tie", "score_tie_skipped", "o3_compared",
                          "matched_by_unique_id", "matched_by_pointer", "matched_by_similarity"],
        "shrink_scalars": [_set(["compare", "diff_page"], False), _set(["compare", "notifier"], ""),
                           _set(["compare", "jobs"], 2), _set(["compare", "min_ws"], -1), _set(["compare", "prefer_ptr"], -1)],
        "components": comp([]),
        "assumptions": [
            "schedules, inputs and configurations are sampled by seed, not enumerated",
            "interleavings are explored at visible operations (channel, WaitGroup, mutex, sync.Map, goroutine start); conflicts between plain memory accesses are found by the race detector's happens-before analysis under the serialised schedule",
            "similarity scores used by the justification oracle are recomputed with the library's own SurroundingSimilarity on cold private copies",
            "cmd/gedcom/diff.go glue is not simulated",
        ],
    },
}
