// simgen instruments a scratch copy of the repository for deterministic
// simulation (see /verif/DESIGN.md §3.2). It rewrites the non-test files of the
// given package directories in place. All rewrites are typed (go/types) and are
// applied as text splices that keep every original line on its line.
//
// Anything it does not understand is refused: the program prints
// "REFUSED <file:line>: reason" and exits 2, so that a check never silently
// simulates something else than the code under /repo.
package main

import (
	"encoding/json"
	"flag"
	"fmt"
	"go/ast"
	"go/constant"
	"go/importer"
	"go/parser"
	"go/token"
	"go/types"
	"os"
	"path/filepath"
	"sort"
	"strings"
)

type edit struct {
	start, end int
	text       string
	seq        int
}

type fileGen struct {
	g        *gen
	name     string // path relative to root
	base     string
	src      []byte
	file     *ast.File
	tf       *token.File
	edits    []edit
	seq      int
	usesSim  bool
	tmpCount int
}

type gen struct {
	fset    *token.FileSet
	info    *types.Info
	root    string
	report  map[string]int
	sites   []string
	refused []string
	out     map[string]string
}

func main() {
	root := flag.String("root", "", "root of the scratch copy of the repository")
	simrtPath := flag.String("simrt", "", "path of the simrt module (written into go.mod as a replace)")
	reportPath := flag.String("report", "", "write a JSON report here")
	flag.Parse()
	pkgs := flag.Args()
	if *root == "" || len(pkgs) == 0 {
		fmt.Fprintln(os.Stderr, "usage: simgen -root DIR [-simrt DIR] pkgdir...")
		os.Exit(2)
	}
	if err := os.Chdir(*root); err != nil {
		fatal(err)
	}
	modPath, err := patchGoMod(*simrtPath)
	if err != nil {
		fatal(err)
	}

	g := &gen{root: *root, report: map[string]int{}, out: map[string]string{}}
	for _, dir := range pkgs {
		if err := g.doPackage(modPath, dir); err != nil {
			fatal(err)
		}
	}
	if len(g.refused) == 0 {
		for name, text := range g.out {
			if err := os.WriteFile(name, []byte(text), 0o644); err != nil {
				fatal(err)
			}
		}
	}
	if *reportPath != "" {
		sort.Strings(g.sites)
		b, _ := json.MarshalIndent(map[string]interface{}{
			"counts": g.report, "sites": g.sites, "refused": g.refused,
		}, "", " ")
		os.WriteFile(*reportPath, b, 0o644)
	}
	if len(g.refused) > 0 {
		for _, r := range g.refused {
			fmt.Println("REFUSED", r)
		}
		os.Exit(2)
	}
}

func fatal(err error) {
	fmt.Fprintln(os.Stderr, "simgen:", err)
	os.Exit(2)
}

// patchGoMod adds the simrt requirement to the scratch go.mod and raises the
// language version to 1.21: high enough for calling the generic
// simrt.MapKeys, still below 1.22, so the shipped (pre-1.22) loop-variable
// semantics are kept.
func patchGoMod(simrtPath string) (string, error) {
	b, err := os.ReadFile("go.mod")
	if err != nil {
		return "", err
	}
	lines := strings.Split(string(b), "\n")
	mod := ""
	for i, l := range lines {
		f := strings.Fields(l)
		if len(f) == 2 && f[0] == "module" {
			mod = f[1]
		}
		if len(f) == 2 && f[0] == "go" {
			if versionLess(f[1], "1.21") {
				lines[i] = "go 1.21"
			} else if !versionLess(f[1], "1.22") {
				// the repository itself moved to per-iteration loop
				// variables: keep its version
			}
		}
	}
	if mod == "" {
		return "", fmt.Errorf("no module line in go.mod")
	}
	out := strings.Join(lines, "\n")
	if simrtPath != "" && !strings.Contains(out, "simrt v0.0.0") {
		out += "\nrequire simrt v0.0.0\n\nreplace simrt => " + simrtPath + "\n"
	}
	return mod, os.WriteFile("go.mod", []byte(out), 0o644)
}

func versionLess(a, b string) bool {
	pa, pb := strings.Split(a, "."), strings.Split(b, ".")
	for i := 0; i < len(pa) || i < len(pb); i++ {
		x, y := 0, 0
		if i < len(pa) {
			fmt.Sscan(pa[i], &x)
		}
		if i < len(pb) {
			fmt.Sscan(pb[i], &y)
		}
		if x != y {
			return x < y
		}
	}
	return false
}

func (g *gen) doPackage(modPath, dir string) error {
	g.fset = token.NewFileSet()
	entries, err := os.ReadDir(dir)
	if err != nil {
		return err
	}
	var files []*ast.File
	var gens []*fileGen
	for _, e := range entries {
		n := e.Name()
		if e.IsDir() || !strings.HasSuffix(n, ".go") || strings.HasSuffix(n, "_test.go") {
			continue
		}
		p := filepath.Join(dir, n)
		src, err := os.ReadFile(p)
		if err != nil {
			return err
		}
		f, err := parser.ParseFile(g.fset, p, src, parser.ParseComments)
		if err != nil {
			return err
		}
		if f.Name.Name == "main" {
			continue
		}
		files = append(files, f)
		gens = append(gens, &fileGen{g: g, name: filepath.Clean(p), base: n, src: src, file: f, tf: g.fset.File(f.Pos())})
	}
	if len(files) == 0 {
		return fmt.Errorf("no files in %s", dir)
	}
	g.info = &types.Info{
		Types:      map[ast.Expr]types.TypeAndValue{},
		Uses:       map[*ast.Ident]types.Object{},
		Defs:       map[*ast.Ident]types.Object{},
		Selections: map[*ast.SelectorExpr]*types.Selection{},
	}
	var terrs []string
	conf := types.Config{
		Importer: importer.ForCompiler(g.fset, "source", nil),
		Error: func(err error) {
			terrs = append(terrs, err.Error())
		},
	}
	pkgPath := modPath
	if dir != "." {
		pkgPath = modPath + "/" + filepath.ToSlash(dir)
	}
	conf.Check(pkgPath, g.fset, files, g.info)
	if len(terrs) > 12 {
		terrs = append(terrs[:12], "...")
	}
	if len(terrs) > 0 {
		return fmt.Errorf("type errors in %s (the tree must compile):\n  %s", dir, strings.Join(terrs, "\n  "))
	}
	for _, fg := range gens {
		fg.run()
		if len(fg.edits) == 0 {
			continue
		}
		out := fg.render(0, len(fg.src))
		if fg.usesSim {
			// add the import on the package clause's own line
			off := fg.tf.Offset(fg.file.Name.End())
			marker := string(fg.src[:off])
			out = strings.Replace(out, marker, marker+`; import simrt "simrt"`, 1)
		}
		g.out[fg.name] = out
	}
	return nil
}

// ---------------------------------------------------------------------------
// edits

func (f *fileGen) off(p token.Pos) int { return f.tf.Offset(p) }

func (f *fileGen) add(start, end int, text string) {
	f.seq++
	f.edits = append(f.edits, edit{start, end, text, f.seq})
	f.usesSim = true
}

func (f *fileGen) insert(at token.Pos, text string) { o := f.off(at); f.add(o, o, text) }

func (f *fileGen) replace(from, to token.Pos, text string) { f.add(f.off(from), f.off(to), text) }

// render returns the text of [lo,hi) with every edit inside applied, and
// consumes those edits (an enclosing rewrite bakes them into its own text).
func (f *fileGen) render(lo, hi int) string {
	var in, rest []edit
	for _, e := range f.edits {
		if e.start >= lo && e.end <= hi {
			in = append(in, e)
		} else {
			rest = append(rest, e)
		}
	}
	f.edits = rest
	sort.SliceStable(in, func(i, j int) bool {
		if in[i].start != in[j].start {
			return in[i].start < in[j].start
		}
		// insertions before replacements at the same offset; otherwise in
		// registration order
		ii, jj := in[i].end == in[i].start, in[j].end == in[j].start
		if ii != jj {
			return ii
		}
		return in[i].seq < in[j].seq
	})
	var b strings.Builder
	pos := lo
	for _, e := range in {
		if e.start < pos {
			f.refuse(token.NoPos, fmt.Sprintf("overlapping rewrites at offset %d", e.start))
			continue
		}
		b.Write(f.src[pos:e.start])
		b.WriteString(e.text)
		pos = e.end
	}
	b.Write(f.src[pos:hi])
	return b.String()
}

func (f *fileGen) renderNode(n ast.Node) string { return f.render(f.off(n.Pos()), f.off(n.End())) }

func (f *fileGen) site(p token.Pos, kind string) string {
	pos := f.g.fset.Position(p)
	s := fmt.Sprintf("%s:%d:%s", filepath.ToSlash(f.name), pos.Line, kind)
	f.g.sites = append(f.g.sites, s)
	f.g.report[kind]++
	return s
}

func (f *fileGen) refuse(p token.Pos, why string) {
	where := f.name
	if p != token.NoPos {
		pos := f.g.fset.Position(p)
		where = fmt.Sprintf("%s:%d", f.name, pos.Line)
	}
	f.g.refused = append(f.g.refused, where+": "+why)
}

func (f *fileGen) lineDirective(p token.Pos) string {
	pos := f.g.fset.Position(p)
	return fmt.Sprintf("/*line %s:%d:%d*/", f.base, pos.Line, pos.Column)
}

func q(s string) string { return fmt.Sprintf("%q", s) }

func flat(s string) string {
	return strings.Join(strings.Fields(strings.ReplaceAll(s, "\n", " ")), " ")
}

// ---------------------------------------------------------------------------
// walking

func (f *fileGen) run() {
	for _, d := range f.file.Decls {
		switch d := d.(type) {
		case *ast.FuncDecl:
			if d.Body != nil {
				f.block(d.Body.List)
			}
		case *ast.GenDecl:
			// function literals in package-level initialisers
			ast.Inspect(d, func(n ast.Node) bool {
				if fl, ok := n.(*ast.FuncLit); ok {
					f.block(fl.Body.List)
					return false
				}
				return true
			})
		}
	}
}

func (f *fileGen) block(list []ast.Stmt) {
	for _, s := range list {
		f.stmt(s, s.Pos(), true)
	}
}

// ops found directly in an expression (nested function literals excluded)
type found struct {
	blocking []token.Pos // channel send/receive
	closes   []token.Pos
	points   []token.Pos
	funcLits []*ast.FuncLit
}

func (f *fileGen) typeOf(e ast.Expr) types.Type {
	if tv, ok := f.g.info.Types[e]; ok {
		return tv.Type
	}
	return nil
}

func isChan(t types.Type) bool {
	if t == nil {
		return false
	}
	_, ok := t.Underlying().(*types.Chan)
	return ok
}

func isMap(t types.Type) bool {
	if t == nil {
		return false
	}
	_, ok := t.Underlying().(*types.Map)
	return ok
}

func isPointer(t types.Type) bool {
	if t == nil {
		return false
	}
	_, ok := t.Underlying().(*types.Pointer)
	return ok
}

// methodName returns e.g. "(*sync.Mutex).Lock" for a method call, or
// "time.Sleep" for a package-level function call.
func (f *fileGen) calleeName(call *ast.CallExpr) (name string, recv ast.Expr, promoted bool) {
	switch fun := call.Fun.(type) {
	case *ast.SelectorExpr:
		if sel, ok := f.g.info.Selections[fun]; ok {
			if fn, ok := sel.Obj().(*types.Func); ok {
				return fn.FullName(), fun.X, len(sel.Index()) > 1
			}
			return "", nil, false
		}
		if obj, ok := f.g.info.Uses[fun.Sel].(*types.Func); ok {
			return obj.FullName(), nil, false
		}
	case *ast.Ident:
		if obj, ok := f.g.info.Uses[fun].(*types.Builtin); ok {
			return "builtin." + obj.Name(), nil, false
		}
		if obj, ok := f.g.info.Uses[fun].(*types.Func); ok {
			return obj.FullName(), nil, false
		}
	}
	return "", nil, false
}

func (f *fileGen) addr(x ast.Expr) string {
	text := flat(f.renderNode(x))
	if isPointer(f.typeOf(x)) {
		return text
	}
	return "&(" + text + ")"
}

// scan inspects the expressions of one simple statement (or a statement
// header), registers expression-level rewrites and reports what it saw.
func (f *fileGen) scan(n ast.Node, fd *found) {
	if n == nil {
		return
	}
	ast.Inspect(n, func(n ast.Node) bool {
		switch n := n.(type) {
		case *ast.FuncLit:
			fd.funcLits = append(fd.funcLits, n)
			return false
		case *ast.SendStmt:
			fd.blocking = append(fd.blocking, n.Pos())
		case *ast.UnaryExpr:
			if n.Op == token.ARROW && isChan(f.typeOf(n.X)) {
				fd.blocking = append(fd.blocking, n.Pos())
			}
		case *ast.SelectorExpr:
			// method values such as "f := mu.Lock" would escape the rewrite
			if sel, ok := f.g.info.Selections[n]; ok && sel.Kind() == types.MethodVal {
				if fn, ok := sel.Obj().(*types.Func); ok {
					full := fn.FullName()
					if strings.HasPrefix(full, "(*sync.Cond).") {
						f.refuse(n.Pos(), "sync.Cond is not supported by the simulator")
					}
				}
			}
		case *ast.CallExpr:
			name, recv, promoted := f.calleeName(n)
			switch name {
			case "builtin.close":
				fd.closes = append(fd.closes, n.Pos())
			case "builtin.make":
				// tuning knob: a buffered channel with a constant capacity of
				// 8 or more (a performance choice) gets its capacity from the
				// simulator, so that correctness is also explored with nearly
				// full buffers; smaller capacities (such as the 1 of the
				// totals channel, which the code relies on) are left alone
				if len(n.Args) == 2 && isChan(f.typeOf(n.Args[0])) {
					if tv, ok := f.g.info.Types[n.Args[1]]; ok && tv.Value != nil {
						if v, exact := constantInt(tv); exact && v >= 8 {
							a := n.Args[1]
							f.replace(a.Pos(), a.End(), "simrt.ChanCap("+q(f.site(n.Pos(), "chancap"))+", "+flat(f.renderNode(a))+")")
						}
					}
				}
			case "time.Sleep":
				f.replace(n.Fun.Pos(), n.Lparen+1, "simrt.Sleep("+q(f.site(n.Pos(), "sleep"))+", ")
			case "(*sync.Mutex).Lock", "(*sync.Mutex).Unlock",
				"(*sync.RWMutex).Lock", "(*sync.RWMutex).Unlock",
				"(*sync.RWMutex).RLock", "(*sync.RWMutex).RUnlock":
				if promoted {
					f.refuse(n.Pos(), "call of a promoted (embedded) mutex method; name the mutex field explicitly")
					break
				}
				fn := map[string]string{
					"(*sync.Mutex).Lock": "Lock", "(*sync.Mutex).Unlock": "Unlock",
					"(*sync.RWMutex).Lock": "RWLock", "(*sync.RWMutex).Unlock": "RWUnlock",
					"(*sync.RWMutex).RLock": "RLock", "(*sync.RWMutex).RUnlock": "RUnlock",
				}[name]
				kind := "lock"
				if strings.HasSuffix(fn, "nlock") {
					kind = "unlock"
				}
				a := f.addr(recv)
				f.replace(n.Pos(), n.End(), "simrt."+fn+"("+q(f.site(n.Pos(), kind))+", "+a+")")
				return false
			case "(*sync.WaitGroup).Wait":
				if promoted {
					f.refuse(n.Pos(), "promoted WaitGroup.Wait")
					break
				}
				a := f.addr(recv)
				f.replace(n.Pos(), n.End(), "simrt.WaitGroupWait("+q(f.site(n.Pos(), "wgwait"))+", "+a+")")
				return false
			case "(*sync.Once).Do":
				if promoted {
					f.refuse(n.Pos(), "promoted Once.Do")
					break
				}
				a := f.addr(recv)
				f.replace(n.Pos(), n.Lparen+1, "simrt.OnceDo("+q(f.site(n.Pos(), "once"))+", "+a+", ")
			case "(*sync.Map).Range":
				if promoted {
					f.refuse(n.Pos(), "promoted sync.Map.Range")
					break
				}
				a := f.addr(recv)
				f.site(n.Pos(), "syncmaprange")
				f.replace(n.Pos(), n.Lparen+1, "simrt.RangeSyncMap("+a+", ")
			default:
				if strings.HasPrefix(name, "(*sync.Map).") || strings.HasPrefix(name, "sync/atomic.") ||
					strings.HasPrefix(name, "(*sync/atomic.") ||
					name == "(*sync.WaitGroup).Add" || name == "(*sync.WaitGroup).Done" {
					fd.points = append(fd.points, n.Pos())
				}
				if strings.HasPrefix(name, "(*sync.Cond).") {
					f.refuse(n.Pos(), "sync.Cond is not supported by the simulator")
				}
			}
		}
		return true
	})
}

func (f *fileGen) funcLits(fd *found) {
	for _, fl := range fd.funcLits {
		f.block(fl.Body.List)
	}
}

// simple handles a statement that lives directly in a statement list.
func (f *fileGen) simple(s ast.Stmt, anchor token.Pos) {
	var fd found
	f.scan(s, &fd)
	f.funcLits(&fd)
	for _, p := range fd.points {
		f.insert(anchor, "simrt.Point("+q(f.site(p, "point"))+"); ")
	}
	if len(fd.blocking) == 0 && len(fd.closes) == 0 {
		return
	}
	switch d := s.(type) {
	case *ast.DeferStmt:
		// `defer close(ch)` with a plain variable: the close becomes the body
		// of a deferred function literal with a yield in front of it (the
		// variable is read when the function returns instead of when the
		// defer statement runs; accepted for identifiers only)
		if id, ok := d.Call.Fun.(*ast.Ident); ok && id.Name == "close" && len(d.Call.Args) == 1 && len(fd.blocking) == 0 && len(fd.closes) == 1 {
			if _, plain := d.Call.Args[0].(*ast.Ident); plain {
				st := f.site(s.Pos(), "close")
				f.insert(d.Call.Pos(), "func() { simrt.Yield("+q(st)+"); ")
				f.insert(s.End(), " }()")
				return
			}
		}
		f.refuse(s.Pos(), "channel operation evaluated directly in a defer/go statement")
		return
	case *ast.GoStmt:
		f.refuse(s.Pos(), "channel operation evaluated directly in a defer/go statement")
		return
	}
	kind := "close"
	if len(fd.blocking) > 0 {
		kind = "chan"
	}
	st := f.site(s.Pos(), kind)
	f.insert(anchor, "simrt.Yield("+q(st)+"); ")
	if _, isRet := s.(*ast.ReturnStmt); !isRet && len(fd.blocking) > 0 {
		f.insert(s.End(), "; simrt.Yield("+q(st+"+")+")")
	}
}

// header handles the init/cond/post/tag parts of if/for/switch.
func (f *fileGen) header(anchor token.Pos, parts ...ast.Node) {
	var fd found
	for _, p := range parts {
		if p == nil || isNilNode(p) {
			continue
		}
		f.scan(p, &fd)
	}
	f.funcLits(&fd)
	for _, p := range fd.blocking {
		f.refuse(p, "channel operation inside an if/for/switch header")
	}
	for _, p := range fd.closes {
		f.insert(anchor, "simrt.Yield("+q(f.site(p, "close"))+"); ")
	}
	for _, p := range fd.points {
		f.insert(anchor, "simrt.Point("+q(f.site(p, "point"))+"); ")
	}
}

func constantInt(tv types.TypeAndValue) (int64, bool) {
	if tv.Value == nil {
		return 0, false
	}
	v, ok := constant.Int64Val(constant.ToInt(tv.Value))
	return v, ok
}

func isNilNode(n ast.Node) bool {
	switch v := n.(type) {
	case ast.Stmt:
		return v == nil
	case ast.Expr:
		return v == nil
	}
	return false
}

func (f *fileGen) stmt(s ast.Stmt, anchor token.Pos, inList bool) {
	switch s := s.(type) {
	case nil:
		return
	case *ast.BlockStmt:
		f.block(s.List)
	case *ast.LabeledStmt:
		f.stmt(s.Stmt, anchor, inList)
	case *ast.IfStmt:
		var init, cond ast.Node
		if s.Init != nil {
			init = s.Init
		}
		cond = s.Cond
		f.header(anchor, init, cond)
		f.block(s.Body.List)
		if s.Else != nil {
			f.stmt(s.Else, anchor, false)
		}
	case *ast.ForStmt:
		var parts []ast.Node
		if s.Init != nil {
			parts = append(parts, s.Init)
		}
		if s.Cond != nil {
			parts = append(parts, s.Cond)
		}
		if s.Post != nil {
			parts = append(parts, s.Post)
		}
		f.header(anchor, parts...)
		f.block(s.Body.List)
	case *ast.SwitchStmt:
		var parts []ast.Node
		if s.Init != nil {
			parts = append(parts, s.Init)
		}
		if s.Tag != nil {
			parts = append(parts, s.Tag)
		}
		f.header(anchor, parts...)
		for _, c := range s.Body.List {
			cc := c.(*ast.CaseClause)
			for _, e := range cc.List {
				f.header(anchor, e)
			}
			f.block(cc.Body)
		}
	case *ast.TypeSwitchStmt:
		var parts []ast.Node
		if s.Init != nil {
			parts = append(parts, s.Init)
		}
		parts = append(parts, s.Assign)
		f.header(anchor, parts...)
		for _, c := range s.Body.List {
			f.block(c.(*ast.CaseClause).Body)
		}
	case *ast.RangeStmt:
		f.rangeStmt(s, anchor, inList)
	case *ast.SelectStmt:
		f.selectStmt(s, anchor, inList)
	case *ast.GoStmt:
		f.goStmt(s, anchor)
	default:
		f.simple(s, anchor)
	}
}

// ---------------------------------------------------------------------------
// range

func (f *fileGen) rangeStmt(s *ast.RangeStmt, anchor token.Pos, inList bool) {
	t := f.typeOf(s.X)
	f.header(anchor, s.X)
	switch {
	case isChan(t):
		st := f.site(s.Pos(), "rangechan")
		f.insert(anchor, "simrt.Yield("+q(st)+"); ")
		f.insert(s.Body.Lbrace+1, " simrt.Yield("+q(st+"+")+");")
		f.block(s.Body.List)
		if inList {
			f.insert(s.End(), "; simrt.Yield("+q(st+"$")+")")
		}
	case isMap(t) && s.Key != nil:
		f.block(s.Body.List)
		f.mapRange(s, anchor)
	default:
		f.block(s.Body.List)
	}
}

func identName(e ast.Expr) string {
	if id, ok := e.(*ast.Ident); ok {
		return id.Name
	}
	return ""
}

func (f *fileGen) mapRange(s *ast.RangeStmt, anchor token.Pos) {
	if s.Tok != token.DEFINE {
		f.refuse(s.Pos(), "range over a map with '=' instead of ':='")
		return
	}
	key := identName(s.Key)
	val := ""
	if s.Value != nil {
		val = identName(s.Value)
	}
	if key == "" || (s.Value != nil && val == "") {
		f.refuse(s.Pos(), "range over a map with non-identifier iteration variables")
		return
	}
	// per-iteration vs per-loop variable: refuse if the value variable could
	// be observed after its iteration
	if val != "" && val != "_" {
		bad := false
		ast.Inspect(s.Body, func(n ast.Node) bool {
			switch n := n.(type) {
			case *ast.UnaryExpr:
				if n.Op == token.AND && identName(n.X) == val {
					bad = true
				}
			case *ast.GoStmt, *ast.DeferStmt:
				ast.Inspect(n, func(m ast.Node) bool {
					if id, ok := m.(*ast.Ident); ok && id.Name == val {
						bad = true
					}
					return true
				})
			}
			return true
		})
		if bad {
			f.refuse(s.Pos(), "map range value variable escapes its iteration (address taken or used in go/defer)")
			return
		}
	}
	f.site(s.Pos(), "maprange")
	f.tmpCount++
	m := fmt.Sprintf("__simm%d", f.tmpCount)
	k := key
	if k == "_" {
		k = fmt.Sprintf("__simk%d", f.tmpCount)
	}
	xText := flat(f.renderNode(s.X))
	hdr := m + " := " + xText + "; for _, " + k + " := range simrt.MapKeys(" + m + ") {"
	if val != "" && val != "_" {
		ok := fmt.Sprintf("__simok%d", f.tmpCount)
		hdr += " " + val + ", " + ok + " := " + m + "[" + k + "]; if !" + ok + " { continue };"
	} else {
		ok := fmt.Sprintf("__simok%d", f.tmpCount)
		hdr += " if _, " + ok + " := " + m + "[" + k + "]; !" + ok + " { continue };"
	}
	if anchor != s.Pos() {
		// labelled loop: the temporary has to be declared before the label
		f.insert(anchor, m+" := "+xText+"; ")
		hdr = strings.TrimPrefix(hdr, m+" := "+xText+"; ")
	}
	f.replace(s.Pos(), s.Body.Lbrace+1, hdr)
}

// ---------------------------------------------------------------------------
// go

func (f *fileGen) goStmt(s *ast.GoStmt, anchor token.Pos) {
	call := s.Call
	st := f.site(s.Pos(), "go")
	var hoist strings.Builder
	f.tmpCount++
	id := f.tmpCount
	// arguments are evaluated in the parent, at the go statement
	var fd found
	for i, a := range call.Args {
		f.scan(a, &fd)
		if tv, ok := f.g.info.Types[a]; ok && tv.Value != nil {
			continue // constant
		}
		if tv, ok := f.g.info.Types[a]; ok && tv.IsNil() {
			continue
		}
		name := fmt.Sprintf("__sima%d_%d", id, i)
		text := flat(f.renderNode(a))
		hoist.WriteString(name + " := " + text + "; ")
		f.replace(a.Pos(), a.End(), name)
	}
	if len(fd.blocking) > 0 || len(fd.closes) > 0 {
		f.refuse(s.Pos(), "channel operation in the arguments of a go statement")
	}
	for _, p := range fd.points {
		f.insert(anchor, "simrt.Point("+q(f.site(p, "point"))+"); ")
	}
	f.funcLits(&fd)
	switch fun := call.Fun.(type) {
	case *ast.FuncLit:
		f.block(fun.Body.List)
	default:
		name, _, _ := f.calleeName(call)
		if strings.HasPrefix(name, "builtin.") {
			f.refuse(s.Pos(), "go statement calling a builtin")
			return
		}
		if tv, ok := f.g.info.Types[call.Fun]; ok && tv.IsType() {
			f.refuse(s.Pos(), "go statement with a conversion")
			return
		}
		var fd2 found
		f.scan(call.Fun, &fd2)
		f.funcLits(&fd2)
		fname := fmt.Sprintf("__simf%d", id)
		text := flat(f.renderNode(call.Fun))
		hoist.WriteString(fname + " := " + text + "; ")
		f.replace(call.Fun.Pos(), call.Fun.End(), fname)
	}
	f.replace(s.Pos(), s.Pos()+2, "{ "+hoist.String()+"simrt.Go("+q(st)+", func() { ")
	f.insert(s.End(), " }) }")
}

// ---------------------------------------------------------------------------
// select

func (f *fileGen) selectStmt(s *ast.SelectStmt, anchor token.Pos, inList bool) {
	var comms []*ast.CommClause
	var def *ast.CommClause
	for _, c := range s.Body.List {
		cc := c.(*ast.CommClause)
		if cc.Comm == nil {
			def = cc
		} else {
			comms = append(comms, cc)
		}
	}
	// nested constructs first
	labels := false
	for _, c := range s.Body.List {
		cc := c.(*ast.CommClause)
		if cc.Comm != nil {
			var fd found
			f.scan(cc.Comm, &fd)
			f.funcLits(&fd)
			for _, p := range fd.points {
				f.insert(anchor, "simrt.Point("+q(f.site(p, "point"))+"); ")
			}
		}
		f.block(cc.Body)
		for _, b := range cc.Body {
			ast.Inspect(b, func(n ast.Node) bool {
				if _, ok := n.(*ast.LabeledStmt); ok {
					labels = true
				}
				return true
			})
		}
	}
	st := f.site(s.Pos(), "select")
	if len(comms) == 0 {
		// "select {}" or default only
		f.insert(anchor, "simrt.Yield("+q(st)+"); ")
		return
	}
	if labels {
		f.refuse(s.Pos(), "label inside a select clause body (bodies are duplicated)")
		return
	}
	if len(comms) > 3 {
		if def == nil {
			f.refuse(s.Pos(), "blocking select with more than three communication clauses")
			return
		}
		f.g.report["uncontrolled_select"]++
		f.insert(anchor, "simrt.Yield("+q(st)+"); ")
		return
	}

	// rendered clause texts (with inner rewrites applied)
	type clause struct{ head, body string }
	rc := make([]clause, len(comms))
	for i, cc := range comms {
		head := f.lineDirective(cc.Comm.Pos()) + f.render(f.off(cc.Comm.Pos()), f.off(cc.Colon))
		bodyText := ""
		if len(cc.Body) > 0 {
			bodyText = f.render(f.off(cc.Colon)+1, f.off(cc.End()))
		}
		rc[i] = clause{head, " simrt.Yield(" + q(st+"+") + ");" + bodyText}
	}
	final := ""
	if def != nil {
		if len(def.Body) > 0 {
			final = f.lineDirective(def.Colon+1) + f.render(f.off(def.Colon)+1, f.off(def.End()))
		}
	} else {
		var b strings.Builder
		b.WriteString("select {")
		for _, c := range rc {
			b.WriteString(" case " + c.head + ":" + c.body + "\n")
		}
		b.WriteString("}")
		final = b.String()
	}
	// anything else inside the select (comments between clauses) is dropped
	f.render(f.off(s.Pos()), f.off(s.End()))

	n := len(comms)
	perms := permutations(n)
	var b strings.Builder
	b.WriteString("switch simrt.SelectOrder(" + q(st) + ", " + fmt.Sprint(n) + ") {")
	for pi, perm := range perms {
		if pi == len(perms)-1 {
			b.WriteString(" default: ")
		} else {
			b.WriteString(fmt.Sprintf(" case %d: ", pi))
		}
		for _, ci := range perm {
			b.WriteString("select { case " + rc[ci].head + ":" + rc[ci].body + "\n default: ")
		}
		b.WriteString(final)
		for range perm {
			b.WriteString("\n};")
		}
	}
	b.WriteString("\n}" + f.lineDirective(s.End()))
	f.add(f.off(s.Pos()), f.off(s.End()), b.String())
	f.insert(anchor, "simrt.Yield("+q(st)+"); ")
}

func permutations(n int) [][]int {
	var res [][]int
	var rec func(cur []int, used []bool)
	rec = func(cur []int, used []bool) {
		if len(cur) == n {
			res = append(res, append([]int(nil), cur...))
			return
		}
		for i := 0; i < n; i++ {
			if !used[i] {
				used[i] = true
				rec(append(cur, i), used)
				used[i] = false
			}
		}
	}
	rec(nil, make([]bool, n))
	return res
}
