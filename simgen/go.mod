module simgen

go 1.26
