#!/bin/bash
# devrun.sh PROP COUNT [SEED] : run a batch on the dev scratch build with 8 workers
S=${S:-/var/tmp/sg}; cd $S; rm -f out*.jsonl race* log*.txt prog*; rm -rf cases; mkdir -p cases
P=$1; N=${2:-100}; SEED=${3:-1}; TIER=${TIER:-quick}
for w in 0 1 2 3 4 5 6 7; do GORACE="log_path=$S/race$w suppress_equal_addresses=0 suppress_equal_stacks=0" SIM_MODE=gen SIM_PROP=$P SIM_TIER=$TIER SIM_BASE_SEED=$SEED SIM_FROM=$w SIM_STRIDE=8 SIM_COUNT=$((N/8)) SIM_OUT=$S/out$w.jsonl SIM_PROGRESS=$S/prog$w SIM_CASEDIR=$S/cases timeout ${DEVTIMEOUT:-300} ./harness.test -test.run '^TestSim$' -test.timeout 0 > log$w.txt 2>&1 & done; wait
cat out?.jsonl > out.jsonl; python3 /verif/bin/summ.py out.jsonl
for w in 0 1 2 3 4 5 6 7; do tail -1 prog$w | grep -q BEGIN && echo "worker $w died in: $(tail -1 prog$w)"; done
true
