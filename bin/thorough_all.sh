#!/bin/bash
# runs every thorough tier once, sequentially (used with `vp run`)
cd "$(dirname "$0")/.."
for P in C11 C19 C13 C17 C14 C01 C02 C03; do
  echo "=== $P $(date)"; ./check $P --tier thorough --workers ${W:-10} 2>&1 | tail -25
done
