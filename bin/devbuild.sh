#!/bin/bash
# developer helper: instrument a scratch copy and build the harness test binary
set -e
export GOFLAGS=-mod=mod GOPROXY=off GOSUMDB=off GOTOOLCHAIN=local
S=${1:-/var/tmp/sg}
rm -rf $S && mkdir -p $S/cases && rsync -a --exclude .git ${SRC:-/repo}/ $S/repo/ && rsync -a /verif/simrt/ $S/simrt/ && rsync -a /verif/harness/ $S/harness/
(cd /verif/simgen && go1.26.8 build -o /verif/bin/simgen .)
python3 /verif/lib/mkcmdsim.py $S/repo
(cd $S/repo && PATH=/opt/veriftools/go1.26.8/bin:$PATH /verif/bin/simgen -root $S/repo -simrt ../simrt -report $S/report.json . util html html/core q cmdsim)
cp $S/repo/go.sum $S/harness/go.sum
(cd $S/harness && go1.26.8 test -c -race -trimpath -o $S/harness.test .)
