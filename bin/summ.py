import json,collections,sys
rows=[json.loads(l) for l in open(sys.argv[1])]
print(len(rows),'cases', sum(r['valid'] for r in rows),'valid', sum(r['runs'] for r in rows),'runs')
c=collections.Counter()
for r in rows:
    for v in r.get('violations') or []:
        c[(v['oracle'],v['signature'])]+=1
for k,v in c.most_common(): print(v,k)
print('wall ms avg', sum(r['wall_ms'] for r in rows)/len(rows))
print('steps avg', sum(r['steps'] for r in rows)/len(rows))
pr=collections.Counter(); cn=collections.Counter()
for r in rows:
    for k,v in r['probes'].items(): pr[k]+=v
    for k,v in r['counters'].items(): cn[k]+=v
print(dict(pr)); print(dict(cn))
obs=collections.Counter()
for r in rows:
    for o in r.get('observations') or []: obs[o[:100]]+=1
print('observations:', obs.most_common(10))
print('VIOLATING CASES:', sum(1 for r in rows if r.get('violations')), [(n, k) for k, n in c.most_common(8)])
