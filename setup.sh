#!/bin/bash
# MANIFEST.setup_cmd: build the framework from files on disk only (offline).
set -e
cd "$(dirname "$0")"
export GOFLAGS=-mod=mod GOPROXY=off GOSUMDB=off GOTOOLCHAIN=local
mkdir -p bin out evidence
(cd simgen && go1.26.8 build -o ../bin/simgen .)
# warm the go1.26.8 build cache (race-enabled std lib, harness dependencies)
S=${VERIF_SCRATCH:-/var/tmp/verif-scratch}/setup-$$
rm -rf "$S" && mkdir -p "$S"
trap 'rm -rf "$S"; rmdir "${VERIF_SCRATCH:-/var/tmp/verif-scratch}" 2>/dev/null || true' EXIT
rsync -a --exclude .git /repo/ "$S/repo/"
rsync -a simrt/ "$S/simrt/"
rsync -a harness/ "$S/harness/"
python3 lib/mkcmdsim.py "$S/repo"
(cd "$S/repo" && PATH=/opt/veriftools/go1.26.8/bin:$PATH "$OLDPWD/bin/simgen" -root "$S/repo" -simrt ../simrt . util html html/core q cmdsim)
cp "$S/repo/go.sum" "$S/harness/go.sum"
(cd "$S/harness" && go1.26.8 test -c -race -trimpath -o "$S/harness.test" . && go1.26.8 test -c -trimpath -o "$S/harness-norace.test" .)
echo "setup ok"
